package harness

import (
	"errors"
	"io"
	"net"
	"os"
	"syscall"
	"time"

	"simrt"
)

// Dir is one direction of a simulated link: bytes written, not yet delivered (Inflight), and
// delivered, not yet read (Readable). The scheduler's deliver action moves bytes between the two.
type Dir struct {
	Name     string
	Inflight []byte
	Readable []byte
	Cap      int // Write blocks while len(Inflight)+len(Readable) >= Cap

	// reader-side conditions, effective once Readable is drained
	EOF  bool
	RErr error

	// writer-side fault: fail when the WErrAt-th byte (counted from 0 over the life of the direction) is written
	WErrAt  int64 // -1: never
	WErr    error
	Written int64
	Deliv   int64 // bytes delivered so far
	CutAt   int64 // -1: never; after CutAt delivered bytes the reader sees EOF (CutRST: ECONNRESET and loss)
	CutRST  bool
	cutDone bool

	rsig chan struct{}
	wsig chan struct{}

	readerClosed bool
	writerClosed bool

	// FlipAt: (absolute offset in the injected stream, xor mask) pairs applied by Inject
	FlipAt   [][2]int64
	Injected int64

	// MarkWrites: remember at what (fake) time which octet of the stream was written, for oracles about when the system
	// said something as opposed to when the peer got to read it
	MarkWrites bool
	Marks      []writeMark

	// statistics
	Reads, Writes int
}

//go:norace
func NewDir(name string, capacity int) *Dir {
	return &Dir{Name: name, Cap: capacity, WErrAt: -1, CutAt: -1, rsig: make(chan struct{}, 1), wsig: make(chan struct{}, 1)}
}

// poke and wait are the transport's own wake-ups; they are hidden from the race detector (a real socket
// gives no happens-before edge between a Close or a write on one side and a Read returning on the other
// that the detector could see).
//
//go:norace
func poke(ch chan struct{}) {
	simrt.Quiet()
	select {
	case ch <- struct{}{}:
	default:
	}
	simrt.Unquiet()
}

//go:norace
func wait(ch chan struct{}) {
	simrt.Quiet()
	<-ch
	simrt.Unquiet()
}

//go:norace
func waitTimer(ch chan struct{}, d time.Duration) {
	simrt.Quiet()
	t := time.NewTimer(d)
	select {
	case <-ch:
		t.Stop()
	case <-t.C:
	}
	simrt.Unquiet()
}

// Deliver moves up to n in-flight bytes to the reader. Scheduler only.
//
//go:norace
func (d *Dir) Deliver(n int) int {
	if n > len(d.Inflight) {
		n = len(d.Inflight)
	}
	if d.CutAt >= 0 && !d.cutDone && d.Deliv+int64(n) >= d.CutAt {
		n = int(d.CutAt - d.Deliv)
		if n < 0 {
			n = 0
		}
		d.cutDone = true
		if d.CutRST {
			d.RErr = syscall.ECONNRESET
			d.Inflight = nil
		} else {
			d.EOF = true
		}
		d.Readable = rawAppend(d.Readable, d.Inflight[:min(n, len(d.Inflight))])
		if !d.CutRST {
			d.Inflight = nil // nothing after the cut ever arrives
		}
		d.Deliv += int64(n)
		poke(d.rsig)
		poke(d.wsig)
		return n
	}
	d.Readable = rawAppend(d.Readable, d.Inflight[:n])
	d.Inflight = d.Inflight[n:]
	d.Deliv += int64(n)
	poke(d.rsig)
	return n
}

// Take removes and returns everything readable (peer-side consumption). Scheduler only.
//
//go:norace
func (d *Dir) Take() []byte {
	b := d.Readable
	d.Readable = nil
	if len(b) > 0 {
		poke(d.wsig)
	}
	return b
}

// Inject appends bytes as if the peer had written them. Scheduler only.
//
//go:norace
func (d *Dir) Inject(b []byte) {
	start := d.Injected
	d.Inflight = rawAppend(d.Inflight, b)
	d.Injected += int64(len(b))
	for _, f := range d.FlipAt {
		if f[0] >= start && f[0] < d.Injected {
			d.Inflight[len(d.Inflight)-int(d.Injected-f[0])] ^= byte(f[1])
		}
	}
}

// SetEOF makes the reader see EOF once what is readable has been read. Scheduler only.
//
//go:norace
func (d *Dir) SetEOF() { d.EOF = true; poke(d.rsig) }

//go:norace
func (d *Dir) SetRErr(err error) { d.RErr = err; poke(d.rsig) }

//go:norace
func (d *Dir) full() bool { return d.Cap > 0 && len(d.Inflight)+len(d.Readable) >= d.Cap }

// Conn is the endpoint the system under test holds.
type Conn struct {
	Name   string
	R, W   *Dir
	closed bool
	rdl    time.Time
	wdl    time.Time
	// DeadlineErr makes SetReadDeadline/SetWriteDeadline fail.
	DeadlineErr error
	Closes      int
	OnClose     func()
}

var _ net.Conn = (*Conn)(nil)

type timeoutErr struct{}

func (timeoutErr) Error() string   { return "i/o timeout" }
func (timeoutErr) Timeout() bool   { return true }
func (timeoutErr) Temporary() bool { return true }
func (timeoutErr) Unwrap() error   { return os.ErrDeadlineExceeded }

//go:norace
func (c *Conn) Read(p []byte) (int, error) {
	simrt.NetYield(c.Name + ".Read")
	d := c.R
	d.Reads++
	for {
		if c.closed {
			return 0, net.ErrClosed
		}
		if len(d.Readable) > 0 {
			n := rawCopy(p, d.Readable)
			d.Readable = d.Readable[n:]
			poke(d.wsig)
			return n, nil
		}
		if d.RErr != nil {
			return 0, d.RErr
		}
		if d.EOF {
			return 0, io.EOF
		}
		if len(p) == 0 {
			return 0, nil
		}
		if !c.rdl.IsZero() {
			w := time.Until(c.rdl)
			if w <= 0 {
				return 0, timeoutErr{}
			}
			waitTimer(d.rsig, w)
		} else {
			simrt.At(c.Name + ".Read")
			wait(d.rsig) // durable block until the scheduler delivers or somebody closes
		}
		simrt.NetWoke(c.Name + ".Read")
	}
}

//go:norace
func (c *Conn) Write(p []byte) (int, error) {
	simrt.NetYield(c.Name + ".Write")
	d := c.W
	d.Writes++
	n := 0
	for n < len(p) {
		if c.closed {
			return n, net.ErrClosed
		}
		if d.readerClosed || (d.cutDone && d.CutRST) {
			return n, syscall.EPIPE
		}
		if d.WErrAt >= 0 && d.Written >= d.WErrAt {
			err := d.WErr
			if err == nil {
				err = syscall.EPIPE
			}
			return n, err
		}
		if d.full() {
			if !c.wdl.IsZero() {
				w := time.Until(c.wdl)
				if w <= 0 {
					return n, timeoutErr{}
				}
				waitTimer(d.wsig, w)
			} else {
				simrt.At(c.Name + ".Write")
				wait(d.wsig)
			}
			simrt.NetWoke(c.Name + ".Write")
			continue
		}
		room := len(p) - n
		if d.Cap > 0 {
			if r := d.Cap - len(d.Inflight) - len(d.Readable); r < room {
				room = r
			}
		}
		if d.WErrAt >= 0 && d.Written+int64(room) > d.WErrAt {
			room = int(d.WErrAt - d.Written) // short write, the error comes on the next iteration
		}
		if d.cutDone {
			// written after the cut: swallowed by the dead link
		} else {
			if d.MarkWrites {
				d.Marks = append(d.Marks, writeMark{off: d.Written, at: time.Now()})
			}
			d.Inflight = rawAppend(d.Inflight, p[n:n+room])
		}
		d.Written += int64(room)
		n += room
	}
	return n, nil
}

//go:norace
func (c *Conn) Close() error {
	simrt.NetYield(c.Name + ".Close")
	c.Closes++
	if c.closed {
		return net.ErrClosed
	}
	c.closed = true
	c.R.readerClosed = true
	c.W.writerClosed = true
	c.W.EOF = true // the other side reads EOF after what is in flight
	poke(c.R.rsig)
	poke(c.R.wsig)
	poke(c.W.wsig)
	poke(c.W.rsig)
	if c.OnClose != nil {
		c.OnClose()
	}
	return nil
}

//go:norace
func (c *Conn) Closed() bool { return c.closed }

type simAddr string

func (a simAddr) Network() string { return "sim" }
func (a simAddr) String() string  { return string(a) }

//go:norace
func (c *Conn) LocalAddr() net.Addr { return simAddr(c.Name + ":local") }

//go:norace
func (c *Conn) RemoteAddr() net.Addr { return simAddr(c.Name + ":remote") }

//go:norace
func (c *Conn) SetDeadline(t time.Time) error {
	if c.DeadlineErr != nil {
		return c.DeadlineErr
	}
	c.rdl, c.wdl = t, t
	poke(c.R.rsig)
	poke(c.W.wsig)
	return nil
}

//go:norace
func (c *Conn) SetReadDeadline(t time.Time) error {
	if c.DeadlineErr != nil {
		return c.DeadlineErr
	}
	c.rdl = t
	poke(c.R.rsig)
	return nil
}

//go:norace
func (c *Conn) SetWriteDeadline(t time.Time) error {
	if c.DeadlineErr != nil {
		return c.DeadlineErr
	}
	c.wdl = t
	poke(c.W.wsig)
	return nil
}

var errInjected = errors.New("injected transport error")

func min(a, b int) int {
	if a < b {
		return a
	}
	return b
}

// rawAppend and rawCopy move bytes without the runtime's race hooks (append/copy report to the race detector on
// behalf of their caller even from //go:norace functions); the transport's buffers are harness state.
//
//go:norace
func rawAppend(dst, src []byte) []byte {
	n := len(dst) + len(src)
	if n > cap(dst) {
		c := 2*cap(dst) + len(src) + 64
		nd := make([]byte, len(dst), c)
		for i := range dst {
			nd[i] = dst[i]
		}
		dst = nd
	}
	k := len(dst)
	dst = dst[:n]
	for i := range src {
		dst[k+i] = src[i]
	}
	return dst
}

//go:norace
func rawCopy(dst, src []byte) int {
	n := len(dst)
	if len(src) < n {
		n = len(src)
	}
	for i := 0; i < n; i++ {
		dst[i] = src[i]
	}
	return n
}

type writeMark struct {
	off int64
	at  time.Time
}

// WrittenAt is the time at which the octet at offset off of the stream was written (zero if unknown).
func (d *Dir) WrittenAt(off int64) time.Time {
	var t time.Time
	for _, m := range d.Marks {
		if m.off > off {
			break
		}
		t = m.at
	}
	return t
}
