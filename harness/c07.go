package harness

import (
	"fmt"
	"strings"
)

// GenC07: uploads against small server windows; a control lane grants credit and changes settings while they progress.
func GenC07(r *RNG) *CliPlan {
	p := &CliPlan{Family: "c07"}
	genCliCommon(r, p)
	iw := Pick(r, int64(0), 1, 100, 1000, 16384, 65535, 65535, 200000)
	p.Srv = PeerCfg{InitialWindow: iw, MaxFrameSize: Pick(r, int64(-1), 16384, 20000, 1<<20), HeaderTableSize: -1, AutoWindow: false, DrainGrants: true,
		ConnWindowBoost: Pick(r, uint32(0), 0, 1000, 100000), LinkCap: Pick(r, 0, 0, 65536)}
	n := 1 + r.Intn(4)
	o := CliOpts{MaxBody: 300000, BodyModes: []string{"buffered", "buffered", "stream-declared", "stream-unknown"}, RespMaxBody: 100, AlwaysWaitEnd: true, BadReader: true}
	sizes := []int{0, 1, 99, 100, 101, 1000, 16383, 16384, 16385, 65535, 65536, 70000, 140000, 300000}
	for k := 0; k < n; k++ {
		q, l := GenCliReq(r, k, o)
		q.Method = "POST"
		if q.BodyMode == "none" {
			q.BodyMode = "buffered"
		}
		q.BodyLen = Pick(r, sizes...)
		if q.BodyMode == "buffered" && q.BodyLen == 0 {
			q.BodyLen = 1
		}
		if q.ReadSizes != nil {
			lo := q.BodyLen / 300
			q.ReadSizes = []int{max(1+r.Intn(3000), lo), max(1+r.Intn(20000), lo)}
		}
		if q.ErrAt >= 0 {
			q.ErrAt = r.Intn(q.BodyLen + 1)
		}
		if r.Intn(8) == 0 {
			q.Cancel = "any"
		}
		// C07 is about flow control: responses never touch the HPACK dynamic table, so that a request the
		// caller cancelled (whose response block the client then skips) cannot put later responses out of step
		for i := range l.Ops {
			if l.Ops[i].Kind == "headers" {
				l.Ops[i].Reps = make([]Rep, len(l.Ops[i].Fields))
				for j := range l.Ops[i].Reps {
					l.Ops[i].Reps[j] = 2
				}
			}
		}
		p.Reqs = append(p.Reqs, q)
		p.Lanes = append(p.Lanes, l)
	}
	ctl := Lane{Name: "ctl", After: -1}
	k := r.Intn(10)
	for j := 0; j < k; j++ {
		switch r.Intn(6) {
		case 0, 1:
			ctl.Ops = append(ctl.Ops, Op{Kind: "wupd", OnConn: true, Incr: uint32(Pick(r, 1, 100, 16384, 65535, 1<<20)), Pad: -1, TableSize: -1})
		case 2, 3:
			ctl.Ops = append(ctl.Ops, Op{Kind: "wupd", LaneRef: 1 + r.Intn(n), Incr: uint32(Pick(r, 1, 100, 16384, 65535, 1<<20)), Pad: -1, TableSize: -1})
		case 4:
			ctl.Ops = append(ctl.Ops, Op{Kind: "settings", Settings: [][2]uint32{{4, uint32(Pick(r, 0, 1, 10, 5000, 65535, 100000, 1<<20))}}, Pad: -1, TableSize: -1})
		case 5:
			ctl.Ops = append(ctl.Ops, Op{Kind: "settings", Settings: [][2]uint32{{5, uint32(Pick(r, 16384, 16385, 65536))}}, Pad: -1, TableSize: -1})
		}
	}
	p.Lanes = append(p.Lanes, ctl)
	return p
}

func c07Online(w *CliWorld) *Violation { return w.LedgerViol }

func c07Final(w *CliWorld) *Violation {
	if w.LedgerViol != nil {
		return w.LedgerViol
	}
	if !w.HsOK {
		return &Violation{Property: "C07", Rule: "handshake", Sig: "handshake", Detail: fmt.Sprintf("handshake failed: %v", w.HsErr)}
	}
	for k := range w.plan.Reqs {
		q := &w.plan.Reqs[k]
		var ss *SrvStream
		if id, ok := w.ridStream[k]; ok {
			ss = w.Streams[id]
		}
		if q.Cancel != "" && w.callers[k].cancelOffered {
			continue // cancelled: RST_STREAM is fine, overspending was checked online
		}
		if q.ErrAt >= 0 {
			// the body reader fails: the upload may end in RST_STREAM, never in a short body passed off as complete
			if ss != nil && ss.EndStreams > 0 && len(ss.RST) == 0 && len(ss.Data) < q.BodyLen {
				return &Violation{Property: "C07", Rule: "truncated-body-ended", Sig: "truncated-body-ended", Detail: fmt.Sprintf("request %d: body reader failed after %d of %d bytes but the stream was ended with END_STREAM after %d bytes", k, q.ErrAt, q.BodyLen, len(ss.Data))}
			}
			continue
		}
		if rule, d := checkRequestReceived(k, q, ss); rule != "" {
			return &Violation{Property: "C07", Rule: strings.SplitN(rule, "/", 2)[0], Sig: "drain/" + rule,
				Detail: fmt.Sprintf("request %d (stream %d) at drain quiescence, the server having granted ample window: %s", k, w.ridStream[k], d)}
		}
	}
	return nil
}

func c07Nontrivial(w *CliWorld) bool { return w.Probes["window-bound"] > 0 }
