package harness

import (
	"fmt"
	"strings"
	"time"
)

var sharedFields = []HF{{"x-shared-0", "alpha"}, {"x-shared-1", "beta-beta"}, {"x-shared-2", "gamma"}, {"x-shared-3", strings.Repeat("delta", 10)}}

// offenceKinds is the catalogue of stream-scoped offences (DESIGN.md Appendix B).
var offenceKinds = []string{
	"upper-case", "pseudo-after-regular", "unknown-pseudo", "response-pseudo", "dup-pseudo", "missing-path", "empty-path",
	"connection-specific", "te-not-trailers", "content-length-mismatch", "body-too-large-declared", "body-too-large-sent",
	"peer-rst-after-headers", "peer-rst-mid-body", "peer-rst-handler-running", "peer-rst-after-response-started",
	"handler-panic", "wupd-overflow", "wupd-zero", "trailers-no-end-stream", "data-after-end-stream", "priority-self-dep",
	"over-max-streams", "body-reader-error",
}

// genOffender builds a lane that commits one stream-scoped offence. shared fields after the offending
// field are sent with incremental indexing so that later well-formed requests reference them by index.
func genOffender(r *RNG, rid int, kind string, maxBody int, withTail, inflight bool) Lane {
	base := []HF{{":method", "POST"}, {":scheme", "https"}, {":path", fmt.Sprintf("/off/%d", rid)}, {":authority", "example.com"}, {"x-rid", fmt.Sprint(rid)}}
	var tail []HF
	if withTail {
		tail = append([]HF(nil), sharedFields[:1+r.Intn(len(sharedFields))]...)
	}
	l := Lane{Name: fmt.Sprintf("off%d-%s", rid, kind), Offender: kind, OpensStream: true, After: -1,
		Resp: &Resp{Status: 200, Mode: "buffered", BodyLen: 10, ErrAt: -1, Fields: []HF{{"x-rid", fmt.Sprint(rid)}}}}
	var badField HF
	hdr := func(fields []HF, endStream bool) Op {
		if inflight && headerOffence[kind] {
			endStream = false // the peer goes on to send a body it does not yet know is unwanted
		}
		o := Op{Kind: "headers", Fields: fields, Pad: -1, TableSize: -1, EndStream: endStream}
		if headerOffence[kind] {
			// where is the first offending field? what follows it is never decoded by a server that stops there
			bad := len(fields)
			for i, f := range fields {
				if f == badField {
					bad = i
					break
				}
			}
			if kind == "missing-path" || kind == "empty-path" {
				bad = len(fields) // decided at END_HEADERS, after the whole block was decoded
			}
			if !withTail {
				// nothing after the offending field may touch the dynamic table
				o.Reps = make([]Rep, len(fields))
				for i := bad + 1; i < len(fields); i++ {
					o.Reps[i] = 2 | 16
				}
			}
			if inflight && r.Intn(2) == 0 {
				o.Splits = genSplits(r) // a CONTINUATION can be in flight when the server resets the stream
			}
		} else if r.Intn(3) == 0 {
			o.Splits = genSplits(r)
		}
		return o
	}
	data := func(n int, end bool) Op { return Op{Kind: "data", Len: n, Pad: -1, EndStream: end, TableSize: -1} }
	ins := func(bad HF) []HF {
		// offending field after the request's own fields, shared fields (if any) after it
		badField = bad
		f := append([]HF(nil), base...)
		f = append(f, bad)
		return append(f, tail...)
	}
	// offending pseudo-header: after the good pseudo-headers, before the regular fields
	insPseudo := func(bad HF) []HF {
		badField = bad
		f := append([]HF(nil), base[:4]...)
		f = append(f, bad)
		f = append(f, base[4:]...)
		return append(f, tail...)
	}
	switch kind {
	case "upper-case":
		l.Ops = []Op{hdr(ins(HF{"X-Upper", "v"}), true)}
	case "pseudo-after-regular":
		l.Ops = []Op{hdr(ins(HF{":method", "GET"}), true)}
	case "unknown-pseudo":
		l.Ops = []Op{hdr(insPseudo(HF{":foo", "bar"}), true)}
	case "response-pseudo":
		l.Ops = []Op{hdr(insPseudo(HF{":status", "200"}), true)}
	case "dup-pseudo":
		l.Ops = []Op{hdr(insPseudo(HF{":path", "/dup"}), true)}
	case "missing-path":
		f := []HF{{":method", "POST"}, {":scheme", "https"}, {":authority", "example.com"}, {"x-rid", fmt.Sprint(rid)}}
		l.Ops = []Op{hdr(append(f, tail...), true)}
	case "empty-path":
		f := []HF{{":method", "POST"}, {":scheme", "https"}, {":path", ""}, {":authority", "example.com"}, {"x-rid", fmt.Sprint(rid)}}
		l.Ops = []Op{hdr(append(f, tail...), true)}
	case "connection-specific":
		l.Ops = []Op{hdr(ins(Pick(r, HF{"connection", "keep-alive"}, HF{"transfer-encoding", "chunked"}, HF{"upgrade", "h2c"}, HF{"keep-alive", "timeout=5"}, HF{"proxy-connection", "x"})), true)}
	case "te-not-trailers":
		l.Ops = []Op{hdr(ins(HF{"te", "gzip"}), true)}
	case "content-length-mismatch":
		l.Ops = []Op{hdr(ins(HF{"content-length", "10"}), false), data(Pick(r, 3, 11, 40), true)}
	case "body-too-large-declared":
		l.Ops = []Op{hdr(ins(HF{"content-length", fmt.Sprint(maxBody + 1)}), false), data(min(maxBody+1, 16384), false), data(10, true)}
	case "body-too-large-sent":
		l.Ops = []Op{hdr(append(append([]HF(nil), base...), tail...), false)}
		for sent := 0; sent <= maxBody+2000; sent += 1000 {
			l.Ops = append(l.Ops, data(1000, false))
		}
		l.Ops = append(l.Ops, data(1, true))
	case "peer-rst-after-headers":
		l.Ops = []Op{hdr(append(append([]HF(nil), base...), tail...), false), {Kind: "rst", Code: 8, Pad: -1, TableSize: -1}}
	case "peer-rst-mid-body":
		l.Ops = []Op{hdr(append(append([]HF(nil), base...), tail...), false), data(100, false), {Kind: "rst", Code: 8, Pad: -1, TableSize: -1}}
	case "peer-rst-handler-running":
		l.Ops = []Op{hdr(append(append([]HF(nil), base...), tail...), true), {Kind: "wait-handler", Pad: -1, TableSize: -1}, {Kind: "rst", Code: 8, Pad: -1, TableSize: -1}}
	case "peer-rst-after-response-started":
		l.Resp.BodyLen = 50000
		l.Ops = []Op{hdr(append(append([]HF(nil), base...), tail...), true), {Kind: "wait-resp-start", Pad: -1, TableSize: -1}, {Kind: "rst", Code: 8, Pad: -1, TableSize: -1}}
	case "handler-panic":
		l.Resp.Panic = true
		l.Ops = []Op{hdr(append(append([]HF(nil), base...), tail...), true)}
	case "wupd-overflow":
		l.Ops = []Op{hdr(append(append([]HF(nil), base...), tail...), false), {Kind: "wupd", Incr: 1<<31 - 1, Pad: -1, TableSize: -1}, data(5, true)}
	case "wupd-zero":
		l.Ops = []Op{hdr(append(append([]HF(nil), base...), tail...), false), {Kind: "wupd", Incr: 0, Pad: -1, TableSize: -1}, data(5, true)}
	case "trailers-no-end-stream":
		l.Ops = []Op{hdr(append(append([]HF(nil), base...), tail...), false), data(5, false),
			{Kind: "trailers", Fields: []HF{{"x-trailer", "t"}}, Pad: -1, TableSize: -1, EndStream: false}, data(1, true)}
	case "data-after-end-stream":
		l.Ops = []Op{hdr(append(append([]HF(nil), base...), tail...), false), data(5, true), data(5, false)}
	case "priority-self-dep":
		l.Ops = []Op{hdr(append(append([]HF(nil), base...), tail...), false), {Kind: "priority", PrioDep: -1, Pad: -1, TableSize: -1}, data(5, true)}
	case "body-reader-error":
		l.Resp.Mode = "stream-unknown"
		l.Resp.BodyLen = 40000
		l.Resp.ErrAt = 20000
		l.Ops = []Op{hdr(append(append([]HF(nil), base...), tail...), true)}
	}
	if inflight && headerOffence[kind] {
		l.Ops = append(l.Ops, data(100, false), data(100, true))
	}
	return l
}

// headerOffence: kinds whose offence is a malformed header block (decided while decoding or at END_HEADERS).
var headerOffence = map[string]bool{"upper-case": true, "pseudo-after-regular": true, "unknown-pseudo": true, "response-pseudo": true,
	"dup-pseudo": true, "missing-path": true, "empty-path": true, "connection-specific": true, "te-not-trailers": true,
	// the offending field of these two is a header field as well (content-length): what follows it in the block counts
	"body-too-large-declared": true, "content-length-mismatch": true}

// inherentInflight: kinds in which the peer necessarily keeps sending on the stream after the point at which the
// server gives up on it (until the server's RST_STREAM has crossed the wire).
var inherentInflight = map[string]bool{"body-too-large-declared": true, "body-too-large-sent": true, "wupd-overflow": true}

// GenC09 places 1-3 offending streams of ONE kind (and one variant) among well-formed requests.
// variant "tail": incremental-indexing fields follow the malformed field, and later requests reference them by index;
// variant "inflight": the peer keeps sending frames on the offending stream until it has received the server's reset.
func genC09(r *RNG, kinds []string, allowVariants bool) *SrvPlan {
	p := &SrvPlan{Family: "c09"}
	maxBody := Pick(r, 64, 4096)
	mcs := Pick(r, 2, 4, 16)
	p.Srv = SrvCfg{MaxConcurrentStreams: mcs, PingInterval: -1, MaxRequestBodySize: maxBody}
	p.Peer = PeerCfg{InitialWindow: 1 << 20, MaxFrameSize: -1, HeaderTableSize: Pick(r, int64(-1), 4096, 512), AutoWindow: true, ConnWindowBoost: 1 << 24, LinkCap: Pick(r, 0, 0, 8192)}
	o := ReqOpts{MaxBody: maxBody, Variety: r.Intn(2) == 0, Splits: r.Intn(2) == 0, Padding: r.Intn(3) == 0, Trailers: false,
		RespModes: []string{"buffered", "stream-declared", "stream-unknown"}, RespMaxBody: 40000}
	kind := Pick(r, kinds...)
	withTail := allowVariants && headerOffence[kind] && r.Intn(2) == 0
	inflight := allowVariants && headerOffence[kind] && r.Intn(2) == 0
	label := kind
	variant := "plain"
	switch {
	case withTail && (inflight || inherentInflight[kind]):
		variant = "tail+inflight"
	case withTail:
		variant = "tail"
	case inflight || inherentInflight[kind]:
		variant = "inflight"
	}
	label = variant + "/" + kind
	total := 2 + r.Intn(5)
	noff := 1 + r.Intn(2)
	if noff >= total {
		noff = total - 1
	}
	offAt := map[int]bool{}
	for len(offAt) < noff {
		offAt[r.Intn(total)] = true
	}
	addShared := func(l *Lane) {
		k := r.Intn(len(sharedFields) + 1)
		for _, f := range sharedFields[:k] {
			l.Req.Fields = append(l.Req.Fields, f)
			l.Ops[0].Fields = append(l.Ops[0].Fields, f)
			l.Ops[0].Reps = append(l.Ops[0].Reps, 0)
		}
	}
	concurrent := 0
	for i := 0; i < total; i++ {
		var l Lane
		isOff := offAt[i]
		if isOff && kind != "over-max-streams" {
			l = genOffender(r, i, kind, maxBody, withTail, inflight)
			l.Offender = label
		} else {
			l = GenRequestLane(r, i, o)
			addShared(&l)
		}
		switch {
		case isOff && kind == "over-max-streams":
			if concurrent >= mcs {
				l.Offender = label // really over the limit: expected to be refused
			} else {
				concurrent++
			}
		case concurrent >= mcs:
			l.After = -3 // everything before has been answered: a slot is certainly free
		default:
			concurrent++
		}
		p.Lanes = append(p.Lanes, l)
	}
	if kind == "over-max-streams" {
		// fill the slots, then one more
		for concurrent < mcs+1 && len(p.Lanes) < 20 {
			l := GenRequestLane(r, len(p.Lanes), o)
			if concurrent >= mcs {
				l.Offender = label
			}
			concurrent++
			p.Lanes = append(p.Lanes, l)
		}
		p.GateMode = "sched"
	}
	last := GenRequestLane(r, len(p.Lanes), o)
	addShared(&last)
	last.After = -3
	p.Lanes = append(p.Lanes, last)
	if p.GateMode == "" {
		p.GateMode = Pick(r, "sched", "sched", "open")
	}
	p.Mask = genMask(r)
	p.PoolPol = r.Intn(3)
	p.Strategy = genStrategy(r)
	p.SelSeed = r.Uint64()
	p.Frag = r.Intn(3) == 0
	p.DelayS2C = r.Intn(2) == 0
	return p
}

// cleanOffences are the kinds for which no defect of the server is known (see known-findings.txt for the others).
var cleanOffences = []string{"upper-case", "pseudo-after-regular", "unknown-pseudo", "response-pseudo", "dup-pseudo", "missing-path", "empty-path",
	"connection-specific", "te-not-trailers", "content-length-mismatch", "peer-rst-after-headers", "peer-rst-mid-body", "peer-rst-handler-running",
	"peer-rst-after-response-started", "handler-panic", "body-reader-error"}

// GenC09 keeps to offence kinds and variants for which the server is expected to behave; GenC09All draws from the
// whole catalogue including the variants behind the known findings, so that their neighbourhood stays exercised.
func GenC09(r *RNG) *SrvPlan    { return genC09(r, cleanOffences, false) }
func GenC09All(r *RNG) *SrvPlan { return genC09(r, offenceKinds, true) }

// c09Final: every non-offending lane passes the full C01 oracle; the connection is not torn down.
// Signature = <variant>/<offence kind>/<rule>: the offence identifies the history that fails.
func c09Final(w *SrvWorld) *Violation {
	label := "none"
	for _, l := range w.lanes {
		if l.lane.Offender != "" {
			label = l.lane.Offender
		}
	}
	for _, g := range w.GoAways {
		if g.Code == 5 && strings.HasSuffix(label, "/data-after-end-stream") {
			// DATA after END_STREAM is a stream error only while the stream is half-closed (remote); once the server has
			// finished its response the stream is closed and the same frame is a connection error (RFC 7540 5.1)
			legit := false
			for _, l := range w.lanes {
				if l.lane.Offender != "" && l.id != 0 && w.EndedBeforeGoAway[l.id] {
					legit = true
				}
			}
			if legit {
				return nil
			}
		}
		if g.Code != 0 {
			return &Violation{Property: "C09", Rule: "connection-torn-down", Sig: fmt.Sprintf("%s/goaway-code=%d", label, g.Code),
				Detail: fmt.Sprintf("GOAWAY(last=%d, code=%d, %.120q) after the stream-scoped offence %s", g.LastStream, g.Code, g.Debug, label)}
		}
	}
	if v := c01Final(w, "C09"); v != nil {
		v.Sig = label + "/" + v.Rule
		v.Detail += "; offence in this run: " + label
		return v
	}
	return nil
}

func c09Online(w *SrvWorld) *Violation {
	v := c01Online(w)
	if v != nil {
		label := "none"
		for _, l := range w.lanes {
			if l.lane.Offender != "" {
				label = l.lane.Offender
			}
		}
		v.Property = "C09"
		v.Sig = label + "/" + v.Rule
	}
	return v
}

func uniq(xs []string) []string {
	m := map[string]bool{}
	var out []string
	for _, x := range xs {
		if !m[x] {
			m[x] = true
			out = append(out, x)
		}
	}
	return out
}

// c09Nontrivial: an offence fired while ≥1 good stream was open and ≥1 good stream was opened afterwards.
func c09Nontrivial(w *SrvWorld) bool {
	goodAfter, off := false, false
	for _, l := range w.lanes {
		if l.lane.Offender != "" && l.id != 0 {
			off = true
			for _, g := range w.lanes {
				if g.lane.Offender == "" && g.lane.Req != nil && g.id > l.id {
					goodAfter = true
				}
			}
		}
	}
	return off && goodAfter && len(w.Streams) >= 3
}

// GenC09Timeout: ReadTimeout as a stream-scoped event. Requests complete at scheduler-chosen moments while the fake
// clock moves in steps around the timeout; some never finish (END_STREAM withheld). A request the server gives up on
// is reset with CANCEL, no earlier than ReadTimeout after it was opened; everything else is served exactly, and the
// connection and its compression state go on.
func GenC09Timeout(r *RNG) *SrvPlan {
	p := &SrvPlan{Family: "c09-timeout"}
	mcs := Pick(r, 4, 16)
	T := Pick(r, time.Second, 5*time.Second)
	p.Srv = SrvCfg{MaxConcurrentStreams: mcs, PingInterval: Pick(r, time.Duration(-1), -1, -1, 10*time.Second), MaxRequestBodySize: 4096, ReadTimeout: T}
	p.Peer = PeerCfg{InitialWindow: 1 << 20, MaxFrameSize: -1, HeaderTableSize: Pick(r, int64(-1), 4096, 512), AutoWindow: true, ConnWindowBoost: 1 << 24}
	o := ReqOpts{MaxBody: 4096, Variety: r.Intn(2) == 0, Splits: r.Intn(2) == 0, Padding: r.Intn(3) == 0, Trailers: false,
		RespModes: []string{"buffered", "stream-declared"}, RespMaxBody: 5000}
	n := 2 + r.Intn(min(mcs, 5)-1)
	for i := 0; i < n; i++ {
		l := GenRequestLane(r, i, o)
		if r.Intn(4) == 0 && len(l.Ops) > 1 {
			// never finished: the peer keeps END_STREAM (and the rest of the body) to itself
			l.Ops = l.Ops[:1+r.Intn(len(l.Ops)-1)]
			l.Ops[len(l.Ops)-1].EndStream = false
			if l.Ops[0].Kind == "headers" {
				l.Ops[0].EndStream = false
			}
			l.Offender = "timeout/never-finished"
		}
		p.Lanes = append(p.Lanes, l)
	}
	// requests that arrive whenever the scheduler likes, also while requests the server has given up on still have
	// their handlers running (those keep their slots: a refusal is then in order, more handlers than the limit are not)
	for k := r.Intn(mcs + 1); k > 0; k-- {
		l := GenRequestLane(r, len(p.Lanes), o)
		l.Name = fmt.Sprintf("late%d", len(p.Lanes))
		p.Lanes = append(p.Lanes, l)
	}
	last := GenRequestLane(r, len(p.Lanes), o)
	last.After = -3
	p.Lanes = append(p.Lanes, last)
	p.Trail = "timeouts"
	p.GateMode = Pick(r, "sched", "sched", "open")
	p.Mask = genMask(r)
	p.PoolPol = r.Intn(3)
	p.Strategy = genStrategy(r)
	p.Strategy.TimeRace = Pick(r, 0.005, 0.02, 0.1)
	p.Strategy.TimeSteps = []time.Duration{T / 3, T / 2, T, time.Millisecond, 10 * time.Millisecond}
	p.SelSeed = r.Uint64()
	p.Frag = r.Intn(3) == 0
	return p
}

// c09TimeoutFinal: judged after the drain and an hour on the fake clock with the peer still connected.
func c09TimeoutFinal(w *SrvWorld, rep *LifeReport) *Violation {
	T := w.plan.Srv.ReadTimeout
	mk := func(rule, sig, d string) *Violation {
		return &Violation{Property: "C09", Rule: rule, Sig: sig, Detail: d}
	}
	for _, g := range w.GoAways {
		return mk("connection-torn-down", fmt.Sprintf("timeout/goaway-code=%d", g.Code), fmt.Sprintf("GOAWAY(last=%d, code=%d, %.100q) although nothing but request timeouts happened on the connection", g.LastStream, g.Code, g.Debug))
	}
	for _, rc := range w.sim.R.Recovers {
		if !strings.Contains(rc.Value, "injected handler panic") {
			return mk("recovered-panic", "timeout/recovered-panic/"+siteFunc(rc.Site), fmt.Sprintf("panic recovered at %s: %.600s", rc.Site, rc.Value))
		}
	}
	if w.GaugeHWM > w.plan.Srv.MaxConcurrentStreams {
		return mk("handler-gauge", "timeout/handler-gauge", fmt.Sprintf("%d handlers were running at once with MaxConcurrentStreams=%d: a request the server gave up on keeps its slot until its handler returns", w.GaugeHWM, w.plan.Srv.MaxConcurrentStreams))
	}
	timedOut := map[int]bool{}
	for i, l := range w.lanes {
		if l.id == 0 {
			continue
		}
		ps := w.Streams[l.id]
		if ps != nil && len(ps.RST) > 0 && ps.RST[0] == 8 {
			age := ps.RSTNow - 1 - l.openedNow
			if age < T {
				return mk("premature-timeout", "timeout/premature", fmt.Sprintf("request %d (stream %d) was reset with CANCEL %v after its HEADERS were sent; ReadTimeout is %v", i, l.id, age, T))
			}
			timedOut[i] = true
			w.Probes["timeout-reset"]++
			if l.lane.Offender == "" {
				w.Probes["timeout-reset-of-a-finishing-request"]++
			}
			continue
		}
		if l.lane.Offender != "" && rep.StayedChecked {
			// never finished, and an hour has passed on the clock: the server must have given up on it
			if ps == nil || (len(ps.RST) == 0 && ps.EndStreams == 0) {
				return mk("timeout-missed", "timeout/missed", fmt.Sprintf("request %d (stream %d) was never finished by the peer, ReadTimeout is %v and an hour has passed, but the server has neither reset nor answered it", i, l.id, T))
			}
		}
	}
	// every other lane: the full exactness oracle
	var ids []int
	for i := range w.lanes {
		ids = append(ids, i)
	}
	for _, i := range ids {
		l := w.lanes[i]
		if l.lane.Req == nil || l.lane.Offender != "" || timedOut[i] || !l.sentAll {
			continue
		}
		if w.Entries[i] > 1 {
			return mk("handler-twice", "timeout/handler-twice", fmt.Sprintf("handler entered %d times for request %d", w.Entries[i], i))
		}
		if ps := w.Streams[l.id]; w.Entries[i] == 0 && ps != nil && len(ps.RST) > 0 && ps.RST[0] == 7 && (len(timedOut) > 0 || w.overCommitted(l)) {
			continue // refused while requests the server had given up on still held their slots, or over the limit anyway
		}
		if w.Entries[i] == 0 {
			return mk("handler-never", "timeout/handler-never", fmt.Sprintf("request %d (stream %d) was complete and not reset, but the handler never ran", i, l.id))
		}
		if rule, d := checkRequestSeen(l.lane, w.Snaps[i]); rule != "" {
			return mk(rule, "timeout/"+rule, fmt.Sprintf("request %d (stream %d): %s", i, l.id, d))
		}
		if rule, d := checkResponseSeen(i, l.lane.Resp, w.Streams[l.id]); rule != "" {
			return mk(rule, "timeout/"+rule, fmt.Sprintf("request %d (stream %d): %s", i, l.id, d))
		}
	}
	return nil
}
