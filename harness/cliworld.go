package harness

import (
	"bytes"
	"encoding/hex"
	"fmt"
	"strconv"
	"strings"
	"sync"

	"github.com/dgrr/http2"
	"github.com/valyala/fasthttp"
	xh2 "golang.org/x/net/http2"
	"golang.org/x/net/http2/hpack"

	"simrt"
)

// RespSnap is what a caller got back.
type RespSnap struct {
	Status int
	Fields []HF
	Body   []byte
}

type callerEvent struct {
	kind string // start | written | done | cancelled | closed
	k    int
	err  error
	snap *RespSnap
	ctx  *http2.Ctx
}

// SrvStream is what the scripted server has received on one stream from the client.
type SrvStream struct {
	ID         uint32
	Rid        int // -1 unknown
	Fields     []HF
	blockBuf   []byte
	HdrBlocks  int
	Data       []byte
	RecvBytes  int64
	EndStreams int
	RST        []uint32
	DecodeErr  string
	HeadersAt  int
	EndAt      int
	Order      []string
}

type callerState struct {
	k             int
	started       bool
	returned      bool
	err           error
	snap          *RespSnap
	ctx           *http2.Ctx
	returns       int
	retStep       int
	cancelOffered bool
	cancelled     bool
}

// CliWorld is a real client connection (http2.Conn) on a simulated link plus the scripted server.
type CliWorld struct {
	sim  *Sim
	plan *CliPlan

	conn     *Conn // transport endpoint the client holds
	c2s, s2c *Dir
	h2       *http2.Conn
	fw       *FrameWriter
	fr       FrameReader
	enc      *RefEncoder
	dec      *hpack.Decoder
	decOut   []hpack.HeaderField
	preface  int // bytes of the client preface still expected

	hsDone  chan error
	HsErr   error
	HsOK    bool
	hsSeen  bool
	cev     chan callerEvent
	callers []*callerState

	lanes      []*laneState
	blockOwner *laneState
	ctlQueue   [][]byte
	opsSent    int

	// server as receiver of the client's DATA (C07 ledger)
	Frames               []*Frame
	Streams              map[uint32]*SrvStream
	streamOrder          []uint32
	ridStream            map[int]uint32
	connRecv             int64
	connGranted          int64
	streamWupd           map[uint32]int64
	setVals              []peerSettingsVal // SETTINGS the server has sent
	acked                int
	ackedInit            int64
	ackedFrame           int64
	ackedStreams         int64
	LedgerViol           *Violation
	SettingsAcks         int
	ClientSettings       []xh2.Setting
	ClientSettingsFrames int
	GoAways              []*Frame
	Pings                int
	PingAcks             int
	ClientEOF            bool
	openAtHeaders        []int // number of streams open at each new HEADERS (C18)
	openNow              map[uint32]bool

	// server as sender (C14 client role): the client's receive windows
	sendConnWin int64
	cliInitWin  int64

	faultsDone   map[int]bool
	phase        int
	peerGone     bool
	stallC2S     bool
	tblWatch     tableWatch
	closeOffered bool
	closed       bool

	online       func(w *CliWorld) *Violation
	Probes       map[string]int
	Harness      string
	ExtraViol    []*Violation
	settingsSent int
	winUpdates   []*Frame
	// application-level causality, visible to the race detector: a real application calls Write/Close/Cancel
	// after Handshake has returned, and Cancel(ctx) after the Write(ctx) it refers to
	hsMu          sync.Mutex
	ctxMu         []sync.Mutex
	maxOpenLimit  []int64
	GoAwaySent    []GoAwaySent
	FrameSizeViol *Violation
	wuChecked     int
	allowedTable  int64
}

// NewCliWorld builds the world and starts the handshake. Inside the bubble, after NewSim.
func NewCliWorld(sim *Sim, plan *CliPlan) *CliWorld {
	w := &CliWorld{sim: sim, plan: plan, fw: NewFrameWriter(), enc: NewRefEncoder(), hsDone: make(chan error, 1), cev: make(chan callerEvent, 4096),
		Streams: map[uint32]*SrvStream{}, ridStream: map[int]uint32{}, streamWupd: map[uint32]int64{}, faultsDone: map[int]bool{}, Probes: map[string]int{},
		preface: len(xh2.ClientPreface), openNow: map[uint32]bool{}, sendConnWin: 65535, cliInitWin: 65535, ackedInit: 65535, ackedFrame: 16384, ackedStreams: 1 << 31}
	sim.R.Mask = kindMask(plan.Mask)
	sim.R.Pools.Policy = plan.PoolPol
	sim.Strat = plan.Strategy
	sim.SelSeed = plan.SelSeed
	if plan.MaxSteps > 0 {
		sim.MaxSteps = plan.MaxSteps
	}
	w.c2s = NewDir("c2s", plan.Srv.LinkCap)
	w.s2c = NewDir("s2c", plan.Srv.LinkCap)
	w.conn = &Conn{Name: "cli", R: w.s2c, W: w.c2s}
	w.dec = hpack.NewDecoder(4096, func(f hpack.HeaderField) { w.decOut = append(w.decOut, f) })
	w.tblWatch = newTableWatch()
	w.allowedTable = 4096
	w.connGranted = 65535 + int64(plan.Srv.ConnWindowBoost)
	for i := range plan.Lanes {
		w.lanes = append(w.lanes, &laneState{idx: i, lane: &plan.Lanes[i]})
	}
	for k := range plan.Reqs {
		w.callers = append(w.callers, &callerState{k: k})
	}
	w.h2 = http2.NewConn(w.conn, http2.ConnOpts{PingInterval: plan.PingInterval, DisablePingChecking: plan.DisablePingChecking})
	// the server's first SETTINGS (+ optional connection window boost): sent as soon as the client's preface arrives
	w.ctxMu = make([]sync.Mutex, len(plan.Reqs))
	h2 := w.h2
	hsDone := w.hsDone
	simrt.Go("handshake", func() {
		err := h2.Handshake()
		appSync(&w.hsMu)
		hsDone <- err
	})
	return w
}

func (w *CliWorld) firstSettings() [][2]uint32 {
	var st [][2]uint32
	if w.plan.Srv.HeaderTableSize >= 0 {
		st = append(st, [2]uint32{1, uint32(w.plan.Srv.HeaderTableSize)})
	}
	if w.plan.SrvMaxStreams >= 0 {
		st = append(st, [2]uint32{3, uint32(w.plan.SrvMaxStreams)})
	}
	if w.plan.Srv.InitialWindow >= 0 {
		st = append(st, [2]uint32{4, uint32(w.plan.Srv.InitialWindow)})
	}
	if w.plan.Srv.MaxFrameSize >= 0 {
		st = append(st, [2]uint32{5, uint32(w.plan.Srv.MaxFrameSize)})
	}
	return st
}

func (w *CliWorld) sendSettings(kv [][2]uint32) {
	var st []xh2.Setting
	var v peerSettingsVal
	for _, s := range kv {
		st = append(st, xh2.Setting{ID: xh2.SettingID(s[0]), Val: s[1]})
		switch s[0] {
		case 4:
			v.hasInit, v.init = true, int64(s[1])
		case 5:
			v.hasFrame, v.frame = true, int64(s[1])
		case 3:
			v.hasStreams, v.streams = true, int64(s[1])
		case 1:
			v.hasTable, v.table = true, int64(s[1])
		}
	}
	if v.hasTable && v.table >= w.allowedTable {
		w.allowedTable = v.table
		w.dec.SetAllowedMaxDynamicTableSize(uint32(v.table))
	}
	if v.hasTable {
		w.tblWatch.sent(v.table)
	}
	w.setVals = append(w.setVals, v)
	w.settingsSent++
	w.ctl(w.fw.Settings(st...))
}

// ---- caller side (harness goroutines acting as the application) ----

func appBuildRequest(q *CliReq, k int) *fasthttp.Request {
	req := &fasthttp.Request{}
	req.SetRequestURI("https://" + q.Host + q.Path)
	req.Header.SetMethod(q.Method)
	for _, f := range q.Fields {
		req.Header.Add(f.Name, f.Value)
	}
	body := genBody(k, q.BodyLen)
	switch q.BodyMode {
	case "buffered":
		req.SetBody(body)
	case "stream-declared":
		req.SetBodyStream(&planReader{data: body, sizes: q.ReadSizes, errAt: q.ErrAt, eofWD: q.EOFWithData}, len(body))
	case "stream-unknown":
		req.SetBodyStream(&planReader{data: body, sizes: q.ReadSizes, errAt: q.ErrAt, eofWD: q.EOFWithData}, -1)
	case "stream-zero":
		req.SetBodyStream(&planReader{data: nil, errAt: -1}, 0)
	}
	return req
}

func appSnapResponse(res *fasthttp.Response) *RespSnap {
	s := &RespSnap{Status: res.StatusCode(), Body: append([]byte(nil), res.Body()...)}
	for k, v := range res.Header.All() {
		s.Fields = append(s.Fields, HF{strings.ToLower(string(k)), string(v)})
	}
	return s
}

func (w *CliWorld) startCaller(k int) {
	q := &w.plan.Reqs[k]
	cev := w.cev
	h2 := w.h2
	simrt.Go("caller"+strconv.Itoa(k), func() {
		appSync(&w.hsMu)
		req := appBuildRequest(q, k)
		res := &fasthttp.Response{}
		ctx := &http2.Ctx{Request: req, Response: res, Err: make(chan error, 1)}
		// whoever learns of ctx through the scheduler (the cancel goroutine) takes the same mutex first: the application
		// would hand the Ctx over through some synchronisation of its own
		appSync(&w.ctxMu[k])
		cev <- callerEvent{kind: "start", k: k, ctx: ctx}
		h2.Write(ctx)
		appSync(&w.ctxMu[k])
		simrt.UserYield("caller.written")
		err := <-ctx.Err
		simrt.UserYield("caller.woke")
		var snap *RespSnap
		if err == nil {
			snap = appSnapResponse(res)
		}
		cev <- callerEvent{kind: "done", k: k, err: err, snap: snap}
	})
}

func (w *CliWorld) drainEvents() {
	for {
		select {
		case ev := <-w.cev:
			c := w.callers[ev.k]
			switch ev.kind {
			case "start":
				c.ctx = ev.ctx
			case "done":
				c.returns++
				if !c.returned {
					c.returned, c.err, c.snap, c.retStep = true, ev.err, ev.snap, w.sim.Steps
					es := "nil"
					if ev.err != nil {
						es = ev.err.Error()
					}
					w.sim.Obs("caller " + itoa(ev.k) + " returned " + es)
					w.sim.Logf("caller %d returned: %s", ev.k, es)
				}
			case "cancelled":
				c.cancelled = true
			case "closed":
				w.closed = true
			}
		default:
		}
		select {
		case err := <-w.hsDone:
			w.hsSeen = true
			w.HsErr = err
			w.HsOK = err == nil
			continue
		default:
		}
		if len(w.cev) == 0 {
			return
		}
	}
}

// ---- scripted server ----

func (w *CliWorld) ctl(b []byte) {
	if w.blockOwner != nil {
		w.ctlQueue = append(w.ctlQueue, b)
		return
	}
	w.s2c.Inject(b)
}

func (w *CliWorld) flushCtl() {
	if w.blockOwner != nil {
		return
	}
	for _, b := range w.ctlQueue {
		w.s2c.Inject(b)
	}
	w.ctlQueue = nil
}

func (w *CliWorld) permissiveInit() int64 {
	m := w.ackedInit
	for _, v := range w.setVals[min(w.acked, len(w.setVals)):] {
		if v.hasInit && v.init > m {
			m = v.init
		}
	}
	return m
}

func (w *CliWorld) permissiveMaxFrame() int64 {
	m := w.ackedFrame
	for _, v := range w.setVals[min(w.acked, len(w.setVals)):] {
		if v.hasFrame && v.frame > m {
			m = v.frame
		}
	}
	return m
}

// permissiveMaxStreams: the largest MAX_CONCURRENT_STREAMS the client may still believe in.
func (w *CliWorld) permissiveMaxStreams() int64 {
	m := w.ackedStreams
	for _, v := range w.setVals[min(w.acked, len(w.setVals)):] {
		if v.hasStreams && v.streams > m {
			m = v.streams
		}
	}
	return m
}

func (w *CliWorld) stream(id uint32) *SrvStream {
	ss := w.Streams[id]
	if ss == nil {
		ss = &SrvStream{ID: id, Rid: -1}
		w.Streams[id] = ss
		w.streamOrder = append(w.streamOrder, id)
	}
	return ss
}

func (w *CliWorld) srvReceive() {
	b := w.c2s.Take()
	if w.preface > 0 && len(b) > 0 {
		n := min(w.preface, len(b))
		w.preface -= n
		b = b[n:]
		if w.preface == 0 {
			switch w.plan.BadPreface {
			case "ping-first":
				w.ctl(w.fw.Ping(false, [8]byte{'p', 'r', 'e', 'f', 'a', 'c', 'e', '!'}))
			case "goaway-first":
				w.ctl(w.fw.GoAway(0, 1, nil))
			case "data-first":
				w.ctl(w.fw.Data(1, true, []byte("hello"), -1))
			case "garbage":
				w.ctl([]byte("HTTP/1.1 400 Bad Request\r\nConnection: close\r\n\r\n"))
			}
			if w.plan.BadPreface != "" {
				w.Probes["bad-preface"]++
			}
			// the server's connection preface: SETTINGS (+ boost)
			w.sendSettings(w.firstSettings())
			if w.plan.Srv.ConnWindowBoost > 0 {
				w.ctl(w.fw.WindowUpdate(0, w.plan.Srv.ConnWindowBoost))
			}
		}
	}
	if len(b) > 0 {
		w.fr.Feed(b)
	}
	for {
		f := w.fr.Next()
		if f == nil {
			break
		}
		f.At = w.sim.Steps
		w.Frames = append(w.Frames, f)
		w.sim.Logf("srv<< %s", f)
		w.sim.Obs(f.String())
		w.onSrvFrame(f)
	}
	if w.c2s.EOF && len(w.c2s.Inflight) == 0 && len(w.c2s.Readable) == 0 {
		w.ClientEOF = true
	}
}

func (w *CliWorld) onSrvFrame(f *Frame) {
	if int64(f.Len) > w.permissiveMaxFrame() && w.FrameSizeViol == nil {
		w.FrameSizeViol = &Violation{Property: "C18", Rule: "frame-over-peer-max", Sig: "frame-over-peer-max/" + ftName(f.Type),
			Detail: fmt.Sprintf("%s frame #%d with a payload of %d bytes; the server's SETTINGS_MAX_FRAME_SIZE is %d (most permissive reading)", ftName(f.Type), f.Seq, f.Len, w.permissiveMaxFrame())}
	}
	switch f.Type {
	case FSettings:
		if f.Ack {
			w.SettingsAcks++
			if w.acked < len(w.setVals) {
				v := w.setVals[w.acked]
				if v.hasInit {
					w.ackedInit = v.init
				}
				if v.hasFrame {
					w.ackedFrame = v.frame
				}
				if v.hasStreams {
					w.ackedStreams = v.streams
				}
				if v.hasTable {
					m := v.table
					for _, u := range w.setVals[w.acked+1:] {
						if u.hasTable && u.table > m {
							m = u.table
						}
					}
					w.tblWatch.acked(m)
				}
				if v.hasTable && v.table < w.allowedTable {
					m := v.table
					for _, u := range w.setVals[w.acked+1:] {
						if u.hasTable && u.table > m {
							m = u.table
						}
					}
					w.allowedTable = m
					w.dec.SetAllowedMaxDynamicTableSize(uint32(m))
				}
			}
			w.acked++
			return
		}
		w.ClientSettingsFrames++
		for _, s := range f.Settings {
			w.ClientSettings = append(w.ClientSettings, s)
			if s.ID == xh2.SettingInitialWindowSize {
				w.cliInitWin = int64(s.Val)
			}
		}
		w.ctl(w.fw.SettingsAck())
	case FPing:
		if f.Ack {
			w.PingAcks++
			if len(f.Ping) > 0 && f.Ping[0] == 's' {
				w.Probes["server-ping-acked"]++
			}
		} else {
			w.Pings++
			if !w.plan.NoPingAck {
				w.ctl(w.fw.Ping(true, f.Ping))
			}
		}
	case FWindowUpdate:
		if f.Incr == 0 {
			w.Probes["client-wupd-zero"]++
		}
		if f.Stream == 0 {
			w.sendConnWin += int64(f.Incr)
		} else {
			for _, l := range w.lanes {
				if l.id == f.Stream {
					l.sendWin += int64(f.Incr)
				}
			}
		}
		w.winUpdates = append(w.winUpdates, f)
	case FGoAway:
		w.GoAways = append(w.GoAways, f)
	case FHeaders, FContinuation:
		ss := w.stream(f.Stream)
		ss.Order = append(ss.Order, ftName(f.Type))
		if f.Type == FHeaders {
			ss.blockBuf = ss.blockBuf[:0]
			if ss.HdrBlocks == 0 {
				w.openAtHeaders = append(w.openAtHeaders, len(w.openNow))
				w.openNow[f.Stream] = true
				w.maxOpenLimit = append(w.maxOpenLimit, w.permissiveMaxStreams())
			}
			if f.EndStream {
				ss.EndStreams++
				ss.EndAt = w.sim.Steps
			}
		}
		ss.blockBuf = append(ss.blockBuf, f.Block...)
		if f.EndHeaders {
			w.decOut = w.decOut[:0]
			if l, ok := w.tblWatch.beforeBlock(); ok {
				w.dec.SetMaxDynamicTableSize(uint32(l))
			}
			_, err := w.dec.Write(ss.blockBuf)
			if err == nil {
				err = w.dec.Close()
			}
			if err != nil {
				ss.DecodeErr = err.Error()
				w.sim.Logf("request block on stream %d does not decode (%v): watch cur=%d pending=%d allowed=%d; block %x", f.Stream, err, w.tblWatch.cur, w.tblWatch.pending, w.allowedTable, ss.blockBuf[:min(len(ss.blockBuf), 120)])
			} else {
				w.tblWatch.block(ss.blockBuf)
				w.sim.Logf("request block on stream %d: %d octets, starts %x; watch cur=%d", f.Stream, len(ss.blockBuf), ss.blockBuf[:min(len(ss.blockBuf), 24)], w.tblWatch.cur)
			}
			ss.HdrBlocks++
			ss.HeadersAt = w.sim.Steps
			for _, h := range w.decOut {
				ss.Fields = append(ss.Fields, HF{h.Name, h.Value})
				if h.Name == "x-rid" && ss.Rid < 0 {
					if n, err := strconv.Atoi(h.Value); err == nil {
						ss.Rid = n
						w.ridStream[n] = f.Stream
						if n >= 0 && n < len(w.lanes) {
							w.lanes[n].id = f.Stream
							w.lanes[n].sendWin = w.cliInitWin
						}
					}
				}
			}
		}
	case FData:
		ss := w.stream(f.Stream)
		ss.Order = append(ss.Order, "DATA")
		ss.Data = append(ss.Data, f.Data...)
		ss.RecvBytes += int64(f.Len)
		w.connRecv += int64(f.Len)
		w.ledgerCheck(ss, f)
		if f.EndStream {
			ss.EndStreams++
			ss.EndAt = w.sim.Steps
		}
		if w.plan.Srv.AutoWindow && f.Len > 0 {
			w.connGranted += int64(f.Len)
			w.ctl(w.fw.WindowUpdate(0, uint32(f.Len)))
			if !f.EndStream {
				w.streamWupd[f.Stream] += int64(f.Len)
				w.ctl(w.fw.WindowUpdate(f.Stream, uint32(f.Len)))
			}
		}
	case FRST:
		ss := w.stream(f.Stream)
		ss.RST = append(ss.RST, f.Code)
		delete(w.openNow, f.Stream)
	}
}

// ledgerCheck is the C07 running inequality on the client's output, in order.
func (w *CliWorld) ledgerCheck(ss *SrvStream, f *Frame) {
	if w.LedgerViol != nil {
		return
	}
	mk := func(rule, d string) {
		w.LedgerViol = &Violation{Property: "C07", Rule: strings.SplitN(rule, "/", 2)[0], Sig: rule, Detail: fmt.Sprintf("stream %d, frame #%d (DATA len %d): %s", ss.ID, f.Seq, f.Len, d)}
	}
	if int64(f.Len) > w.permissiveMaxFrame() {
		mk("frame-too-large", fmt.Sprintf("payload exceeds the server's SETTINGS_MAX_FRAME_SIZE %d", w.permissiveMaxFrame()))
		return
	}
	if ss.EndStreams > 0 {
		mk("data-after-end-stream", "DATA after END_STREAM was already sent on the stream")
		return
	}
	if f.Len == 0 {
		return
	}
	if w.connRecv > w.connGranted {
		mk("conn-window-overrun", fmt.Sprintf("connection total %d > granted %d", w.connRecv, w.connGranted))
		return
	}
	allowed := w.permissiveInit() + w.streamWupd[ss.ID]
	if ss.RecvBytes > allowed {
		mk("stream-window-overrun", fmt.Sprintf("stream total %d > granted %d (initial %d in the most permissive reading + WINDOW_UPDATEs %d)", ss.RecvBytes, allowed, w.permissiveInit(), w.streamWupd[ss.ID]))
		return
	}
	if w.connRecv == w.connGranted || ss.RecvBytes == allowed {
		w.Probes["window-bound"]++
	}
}

func (w *CliWorld) laneEnabled(l *laneState) bool {
	if l.sentAll || w.peerGone {
		return false
	}
	if w.blockOwner != nil && w.blockOwner != l {
		return false
	}
	if len(l.queue) > 0 {
		return true
	}
	if l.next >= len(l.lane.Ops) {
		return false
	}
	if l.idx < len(w.plan.Reqs) {
		// a response lane: needs its request
		id, ok := w.ridStream[l.idx]
		if !ok {
			return false
		}
		ss := w.Streams[id]
		if l.lane.WaitEnd && ss.EndStreams == 0 {
			return false
		}
		if l.lane.AfterCancel && l.next == 0 && !w.callers[l.idx].cancelled {
			return false
		}
		if len(ss.RST) > 0 && l.next == 0 {
			// the client cancelled before we answered: a conforming server says nothing more on the stream
			l.sentAll = true
			return false
		}
	} else if !w.HsOK && l.lane.After != -9 {
		return false // control lanes start after the handshake (After == -9: may run during it)
	}
	if l.next == 0 && l.lane.After >= 0 {
		a := w.lanes[l.lane.After]
		if !a.sentAll {
			return false
		}
	}
	op := &l.lane.Ops[l.next]
	if op.LaneRef > 0 && w.lanes[op.LaneRef-1].id == 0 {
		return false
	}
	switch op.Kind {
	case "data":
		need := int64(op.Len)
		if op.Pad >= 0 {
			need += int64(op.Pad) + 1
		}
		if need > 0 && (need > w.sendConnWin || need > l.sendWin) {
			return false
		}
	case "wait-callers":
		for _, c := range w.callers {
			if !c.returned {
				return false
			}
		}
	case "wait-req":
		_, ok := w.ridStream[op.Len]
		return ok
	}
	return true
}

func (w *CliWorld) refID(l *laneState, op *Op) uint32 {
	if op.LaneRef > 0 {
		return w.lanes[op.LaneRef-1].id
	}
	switch {
	case op.StreamRef < 0:
		return 0
	case op.StreamRef > 0:
		return uint32(op.StreamRef)
	}
	return l.id
}

func (w *CliWorld) laneSend(l *laneState) {
	defer w.flushCtl()
	defer func() {
		if len(l.queue) == 0 && l.next >= len(l.lane.Ops) {
			l.sentAll = true
		}
	}()
	if len(l.queue) > 0 {
		fb := l.queue[0]
		l.queue = l.queue[1:]
		w.s2c.Inject(fb)
		if len(l.queue) == 0 && w.blockOwner == l && !l.keepBlock {
			w.blockOwner = nil
		}
		return
	}
	op := &l.lane.Ops[l.next]
	l.next++
	l.opsSent++
	w.opsSent++
	id := w.refID(l, op)
	switch op.Kind {
	case "headers", "trailers":
		if op.TableSize >= 0 {
			w.enc.SetTableSize(uint32(op.TableSize))
		}
		blk, err := w.enc.EncodeBlock(op.Fields, op.Reps)
		if err != nil {
			w.Harness = err.Error()
			return
		}
		parts := splitBlock(blk, op.Splits)
		var frames [][]byte
		for i, p := range parts {
			last := i == len(parts)-1
			eh := last && !op.NoEndHdrs
			if i == 0 {
				frames = append(frames, w.fw.Headers(id, p, op.EndStream, eh, op.Pad, false, 0, 0))
			} else {
				frames = append(frames, w.fw.Continuation(id, p, eh))
			}
		}
		if len(parts) > 1 {
			w.Probes["header-block-split"]++
		}
		if op.Pad >= 0 {
			w.Probes["headers-padded"]++
		}
		if op.Kind == "trailers" {
			w.Probes["response-trailers"]++
		}
		w.sim.Logf("srv>> lane%d stream %d %s block=%x parts=%d", l.idx, id, op.Kind, blk, len(parts))
		if op.JunkFlags != 0 {
			frames[0][4] |= op.JunkFlags
			w.Probes["undefined-flags"]++
		}
		w.s2c.Inject(frames[0])
		l.queue = frames[1:]
		l.keepBlock = op.NoEndHdrs
		if len(l.queue) > 0 || op.NoEndHdrs {
			w.blockOwner = l
		}
		if op.EndStream {
			delete(w.openNow, id)
		}
	case "data":
		total := l.bodyOff + op.Len
		if l.lane.Resp != nil && l.lane.Resp.BodyLen > total {
			total = l.lane.Resp.BodyLen
		}
		body := RespBody(l.idx, total)[l.bodyOff : l.bodyOff+op.Len]
		l.bodyOff += op.Len
		fb := w.fw.Data(id, op.EndStream, body, op.Pad)
		n := int64(len(fb) - 9)
		w.sendConnWin -= n
		l.sendWin -= n
		if op.Pad >= 0 {
			w.Probes["data-padded"]++
			if op.Len == 0 {
				w.Probes["data-padded-empty"]++
			}
		}
		if op.Len == 0 {
			w.Probes["data-empty"]++
		}
		if op.JunkFlags != 0 {
			fb[4] |= op.JunkFlags
			w.Probes["undefined-flags"]++
		}
		w.s2c.Inject(fb)
		if op.EndStream {
			delete(w.openNow, id)
		}
	case "rst":
		w.s2c.Inject(w.fw.RST(id, op.Code))
		delete(w.openNow, id)
	case "wupd":
		if op.OnConn {
			id = 0
			w.connGranted += int64(op.Incr)
		} else {
			w.streamWupd[id] += int64(op.Incr)
		}
		w.s2c.Inject(w.fw.WindowUpdate(id, op.Incr))
	case "settings":
		w.sendSettings(op.Settings)
	case "ping":
		var d [8]byte
		copy(d[:], fmt.Sprintf("s%07d", w.opsSent))
		w.s2c.Inject(w.fw.Ping(false, d))
	case "goaway":
		last := uint32(op.Incr)
		if op.LaneRef > 0 {
			last = w.lanes[op.LaneRef-1].id
		} else if op.LaneRef == -1 {
			for _, id := range w.streamOrder {
				last = max(last, id)
			}
		}
		w.GoAwaySent = append(w.GoAwaySent, GoAwaySent{Last: last, Code: op.Code, Step: w.sim.Steps, StreamsSeen: len(w.streamOrder)})
		w.s2c.Inject(w.fw.GoAway(last, op.Code, nil))
	case "raw":
		var pl []byte
		if op.RawHex != "" {
			pl, _ = hex.DecodeString(op.RawHex)
		} else {
			pl = make([]byte, op.RawLen)
		}
		w.s2c.Inject(w.fw.Raw(op.RawType, op.RawFlags, id, pl))
	case "wait-callers", "wait-req":
	}
}

// GoAwaySent records a GOAWAY the scripted server sent.
type GoAwaySent struct {
	Last        uint32
	Code        uint32
	Step        int
	StreamsSeen int
}

func (w *CliWorld) EnvActions() []Action {
	w.drainEvents()
	var acts []Action
	if n := len(w.s2c.Inflight); n > 0 && !w.s2c.cutDone {
		acts = append(acts, Action{Name: "deliver s2c all(" + itoa(n) + ")", Run: func() { w.s2c.Deliver(n) }, Env: true, Weight: 20})
		if w.plan.Frag && n > 1 {
			acts = append(acts, Action{Name: "deliver s2c 1", Run: func() { w.s2c.Deliver(1) }, Env: true, Weight: 6})
			k := 1 + int(Mix(uint64(w.sim.Steps), uint64(n))%uint64(n-1))
			acts = append(acts, Action{Name: "deliver s2c " + itoa(k), Run: func() { w.s2c.Deliver(k) }, Env: true, Weight: 10})
		}
	}
	if n := len(w.c2s.Inflight); n > 0 && !w.stallC2S {
		acts = append(acts, Action{Name: "deliver c2s all(" + itoa(n) + ")", Run: func() { w.c2s.Deliver(n); w.srvReceive() }, Env: true, Weight: 20})
		if w.plan.DelayC2S && n > 9 && w.preface == 0 {
			l := 9 + (int(w.c2s.Inflight[0])<<16 | int(w.c2s.Inflight[1])<<8 | int(w.c2s.Inflight[2]))
			if w.fr.Pending() == 0 && l < n {
				acts = append(acts, Action{Name: "deliver c2s frame(" + itoa(l) + ")", Run: func() { w.c2s.Deliver(l); w.srvReceive() }, Env: true, Weight: 10})
			}
		}
	} else if !w.ClientEOF && w.c2s.EOF && len(w.c2s.Inflight) == 0 && !w.stallC2S {
		acts = append(acts, Action{Name: "server sees EOF", Run: func() { w.srvReceive() }, Env: true})
	}
	// callers
	if w.HsOK {
		for _, c := range w.callers {
			if c.started {
				continue
			}
			q := &w.plan.Reqs[c.k]
			if q.StartAfter >= 0 && !w.callers[q.StartAfter].returned {
				continue
			}
			c := c
			acts = append(acts, Action{Name: "start caller " + itoa(c.k), Run: func() { c.started = true; w.startCaller(c.k) }, Env: true, Weight: 15})
		}
	}
	for _, l := range w.lanes {
		if w.laneEnabled(l) {
			l := l
			acts = append(acts, Action{Name: "srv-send lane" + itoa(l.idx) + " op" + itoa(l.next), Run: func() { w.laneSend(l) }, Env: true, Weight: 10})
		}
	}
	if w.phase == 0 {
		for _, c := range w.callers {
			q := &w.plan.Reqs[c.k]
			if q.Cancel == "seen-stalled" {
				// only once the request has reached the scripted server (the cancel then certainly finds a stream to
				// reset) and the link towards the server is held up (the server will not see the RST_STREAM for a while)
				if _, ok := w.ridStream[c.k]; !ok || !w.stallC2S {
					continue
				}
			}
			if q.Cancel != "" && c.started && !c.returned && !c.cancelOffered && c.ctx != nil {
				c := c
				acts = append(acts, Action{Name: "cancel caller " + itoa(c.k), Env: true, Weight: 3, Run: func() {
					c.cancelOffered = true
					w.Probes["cancel"]++
					h2, ctx, cev := w.h2, c.ctx, w.cev
					simrt.Go("cancel"+strconv.Itoa(c.k), func() {
						appSync(&w.hsMu)
						appSync(&w.ctxMu[c.k])
						_ = h2.Cancel(ctx)
						cev <- callerEvent{kind: "cancelled", k: c.k}
					})
				}})
			}
		}
		if w.plan.CloseAt == "sched" && w.HsOK && !w.closeOffered {
			acts = append(acts, Action{Name: "close conn", Env: true, Weight: 2, Run: func() { w.closeConn() }})
		}
		for i, f := range w.plan.Faults {
			if w.faultsDone[i] {
				continue
			}
			if f.AfterReqs > 0 && len(w.Streams) < f.AfterReqs {
				continue
			}
			if f.AfterOps >= 0 && w.opsSent < f.AfterOps {
				// a stalled link is also released once the scripted server has nothing left that it may send:
				// the credit it waits for can only be behind the stall
				if !(f.Kind == "unstall-c2s" && w.stallC2S && !w.anyLaneEnabled() && !w.cancelsPending()) {
					continue
				}
			}
			i, f := i, f
			acts = append(acts, Action{Name: "fault " + f.Kind + "@" + itoa(f.At), Run: func() { w.faultsDone[i] = true; w.applyFault(f) }, Env: true, Weight: 8})
		}
	}
	if w.phase >= 1 && w.plan.Srv.DrainGrants && w.blockOwner == nil && !w.peerGone {
		if a := w.drainGrantAction(); a != nil {
			acts = append(acts, *a)
		}
	}
	return acts
}

// cancelsPending: callers that are to cancel behind the stalled link and have not done so yet.
func (w *CliWorld) cancelsPending() bool {
	for _, c := range w.callers {
		if w.plan.Reqs[c.k].Cancel == "seen-stalled" && c.started && !c.returned && !c.cancelled {
			return true
		}
	}
	return false
}

func (w *CliWorld) anyLaneEnabled() bool {
	for _, l := range w.lanes {
		if w.laneEnabled(l) {
			return true
		}
	}
	return false
}

func (w *CliWorld) closeConn() {
	if w.closeOffered {
		return
	}
	w.closeOffered = true
	w.Probes["close-local"]++
	h2, cev := w.h2, w.cev
	simrt.Go("closer", func() {
		appSync(&w.hsMu)
		_ = h2.Close()
		cev <- callerEvent{kind: "closed"}
	})
}

// needsWindow: the stream's request still has body octets that have not arrived. A stream whose whole body is here and
// which lacks nothing but END_STREAM needs no window: an empty DATA frame costs none.
func (w *CliWorld) needsWindow(ss *SrvStream) bool {
	if ss.Rid < 0 || ss.Rid >= len(w.plan.Reqs) {
		return true
	}
	q := w.plan.Reqs[ss.Rid]
	if q.BodyMode == "none" || q.BodyMode == "" {
		return true // not an upload the plan knows the length of: be generous
	}
	return ss.RecvBytes < int64(q.BodyLen)
}

func (w *CliWorld) drainGrantAction() *Action {
	const target = int64(1 << 28)
	// only what is needed: a sender that stays parked although both of its windows are open is the defect the drain
	// phase is there to expose, and a grant it did not need would wake it up
	anyNeeds := false
	for _, id := range w.streamOrder {
		ss := w.Streams[id]
		if ss.EndStreams == 0 && len(ss.RST) == 0 && ss.HdrBlocks > 0 && w.needsWindow(ss) {
			anyNeeds = true
		}
	}
	if avail := w.connGranted - w.connRecv; avail <= 0 && anyNeeds {
		inc := target - avail
		return &Action{Name: fmt.Sprintf("drain-grant conn +%d", inc), Env: true, Run: func() {
			w.connGranted += inc
			w.ctl(w.fw.WindowUpdate(0, uint32(inc)))
		}}
	}
	for _, id := range w.streamOrder {
		ss := w.Streams[id]
		if ss.EndStreams > 0 || len(ss.RST) > 0 || ss.HdrBlocks == 0 || !w.needsWindow(ss) {
			continue
		}
		lo := w.ackedInit
		for _, v := range w.setVals[min(w.acked, len(w.setVals)):] {
			if v.hasInit && v.init < lo {
				lo = v.init
			}
		}
		avail := lo + w.streamWupd[id] - ss.RecvBytes
		hi := w.permissiveInit() + w.streamWupd[id] - ss.RecvBytes
		if avail <= 0 && hi < target {
			inc := target - hi
			id := id
			return &Action{Name: fmt.Sprintf("drain-grant stream %d +%d", id, inc), Env: true, Run: func() {
				w.streamWupd[id] += inc
				w.ctl(w.fw.WindowUpdate(id, uint32(inc)))
			}}
		}
	}
	return nil
}

func (w *CliWorld) applyFault(f Fault) {
	w.Probes["fault-"+f.Kind]++
	switch f.Kind {
	case "eof":
		w.peerGone = true
		w.s2c.SetEOF()
	case "cut-eof":
		w.s2c.CutAt = w.s2c.Deliv + f.At
		if len(w.s2c.Inflight) == 0 {
			w.s2c.Deliver(0)
		}
	case "cut-rst":
		w.s2c.CutAt = w.s2c.Deliv + f.At
		w.s2c.CutRST = true
		w.c2s.readerClosed = true
		poke(w.c2s.wsig)
		if len(w.s2c.Inflight) == 0 {
			w.s2c.Deliver(0)
		}
	case "werr":
		w.c2s.WErrAt = w.c2s.Written + f.At
	case "stall-c2s":
		w.stallC2S = true
	case "unstall-c2s":
		w.stallC2S = false
	case "flip":
		w.s2c.FlipAt = append(w.s2c.FlipAt, [2]int64{w.s2c.Injected + f.At, 1 << (uint(f.At) % 8)})
	case "close-peer":
		w.PeerClose()
	case "close-local":
		w.closeConn()
	}
}

// PeerClose: the server goes away for good.
func (w *CliWorld) PeerClose() {
	w.peerGone = true
	w.s2c.SetEOF()
	w.c2s.readerClosed = true
	poke(w.c2s.wsig)
}

func (w *CliWorld) Check() *Violation {
	w.drainEvents()
	if w.Harness != "" {
		w.sim.Stuck = w.Harness
		return &Violation{Property: "HARNESS", Rule: "harness", Sig: "harness", Detail: w.Harness}
	}
	if w.online != nil {
		return w.online(w)
	}
	return nil
}

func (w *CliWorld) Summary() string {
	ret := 0
	for _, c := range w.callers {
		if c.returned {
			ret++
		}
	}
	return fmt.Sprintf("callers=%d returned=%d streams=%d frames=%d hs=%v(%v)", len(w.callers), ret, len(w.Streams), len(w.Frames), w.HsOK, w.HsErr)
}

var _ = bytes.Equal

// appSync is a release/acquire pair on m that the race detector sees: it stands for whatever the application uses
// to order its own calls into the library.
func appSync(m *sync.Mutex) {
	m.Lock()
	m.Unlock() //nolint:staticcheck
}
