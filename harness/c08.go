package harness

import (
	"fmt"
	"sort"
	"strings"
)

// ---- the executable RFC 7540 §5.1 / §6 reaction model (DESIGN.md Appendix A), seen from the peer ----

type mState int

const (
	mIdle         mState = iota
	mOpenHdr             // HEADERS sent without END_HEADERS, no END_STREAM
	mHcrHdr              // HEADERS sent with END_STREAM but without END_HEADERS
	mOpen                // request headers complete, body may follow
	mTrailerHdr          // trailer HEADERS (END_STREAM) sent without END_HEADERS
	mHcr                 // half-closed (remote): the request is complete
	mClosedPeer          // the peer sent RST_STREAM
	mClosedSrvEnd        // the server finished its response (END_STREAM) after the request was complete
	mClosedSrvRST        // the server sent RST_STREAM
)

var mStateNames = []string{"idle", "open(block unfinished)", "half-closed(block unfinished)", "open", "open(trailer block unfinished)", "half-closed(remote)", "closed(peer RST)", "closed(server END_STREAM)", "closed(server RST)"}

func (s mState) String() string { return mStateNames[s] }

// reaction classes
type allowSet struct {
	OK   bool     // processed or ignored without any error
	SE   []uint32 // stream error codes allowed (a connection error with the same code is accepted too)
	CE   []uint32 // connection error codes allowed (closing the connection is accepted wherever a CE is)
	Why  string
	Next mState
}

type model struct {
	st         map[uint32]mState
	maxOpened  uint32 // highest odd id the peer has opened
	blockOn    uint32 // a header block of the peer is open on this stream
	window     map[uint32]int64
	initWin    int64
	open       int
	maxStreams int
	legal      bool                  // every frame so far allowed OK
	complete   map[uint32]bool       // request complete and legal: must be dispatched
	malformed  map[uint32]bool       // the header block being sent on the stream lacks the pseudo-headers
	srvSent    func(id uint32) int64 // DATA bytes the server has sent on a stream (they consumed its send window)
	zombies    func() int            // streams that are closed for the peer while their handler is still running
	ever       map[uint32]bool       // the request was complete and legal at some point (it may have been dispatched then)
}

func newModel(maxStreams int, initWin int64) *model {
	return &model{st: map[uint32]mState{}, window: map[uint32]int64{}, initWin: initWin, maxStreams: maxStreams, legal: true, complete: map[uint32]bool{}, malformed: map[uint32]bool{}, ever: map[uint32]bool{}}
}

func (m *model) state(id uint32) mState {
	if s, ok := m.st[id]; ok {
		return s
	}
	return mIdle
}

func (m *model) implicitlyClosed(id uint32) bool {
	_, used := m.st[id]
	return !used && id%2 == 1 && id < m.maxOpened
}

func selfDep(op *Op, id uint32) bool { return op.PrioDep < 0 || uint32(op.PrioDep) == id }

// allowed computes the reactions RFC 7540 permits for frame op sent on stream id, and the peer-side next state if processed.
func (m *model) allowed(op *Op, id uint32) allowSet {
	k := op.Kind
	st := m.state(id)
	ce := func(why string, codes ...uint32) allowSet { return allowSet{CE: codes, Why: why, Next: st} }
	se := func(why string, codes ...uint32) allowSet { return allowSet{SE: codes, CE: codes, Why: why, Next: st} }
	ok := func(why string, next mState) allowSet { return allowSet{OK: true, Why: why, Next: next} }
	// an open header block admits nothing but its own CONTINUATION
	if m.blockOn != 0 && !(k == "continuation" && id == m.blockOn) {
		return ce("§6.2/§6.10: only CONTINUATION on the same stream may follow a HEADERS without END_HEADERS", cProtocol)
	}
	if k == "unknown" {
		return ok("§4.1: unknown frame types are ignored", st)
	}
	if k == "ping" || k == "conn-wupd" || k == "conn-settings" {
		return ok("a frame of the connection itself (PING, WINDOW_UPDATE or empty SETTINGS on stream 0): answered or absorbed, no stream is concerned", st)
	}
	if id == 0 || id%2 == 0 {
		if k == "priority" && id != 0 {
			return allowSet{OK: true, CE: []uint32{cProtocol}, Why: "PRIORITY on an even id (RFC silent)", Next: st}
		}
		return ce("§5.1.1/§6: stream frame on stream 0 or on an even id", cProtocol)
	}
	if m.implicitlyClosed(id) {
		switch k {
		case "headers", "trailers", "headers2":
			return allowSet{SE: []uint32{cStreamClose}, CE: []uint32{cProtocol, cStreamClose}, Why: "§5.1.1: stream id lower than one already opened", Next: st}
		case "data":
			return allowSet{SE: []uint32{cStreamClose}, CE: []uint32{cProtocol, cStreamClose}, Why: "DATA on an implicitly closed stream", Next: st}
		case "priority":
			if selfDep(op, id) {
				return allowSet{OK: true, SE: []uint32{cProtocol}, CE: []uint32{cProtocol}, Why: "PRIORITY self-dependency on a closed stream", Next: st}
			}
			return ok("§5.1: PRIORITY is allowed in any state", st)
		default: // rst, wupd, continuation
			if k == "continuation" {
				return ce("CONTINUATION without a header block", cProtocol)
			}
			return allowSet{OK: true, SE: []uint32{cStreamClose, cProtocol}, CE: []uint32{cStreamClose, cProtocol}, Why: "RST_STREAM/WINDOW_UPDATE on an implicitly closed stream (RFC silent: permissive)", Next: st}
		}
	}
	switch st {
	case mIdle:
		switch k {
		case "headers2", "trailers":
			// a HEADERS frame that opens a stream with a header list lacking the pseudo-headers: a malformed request
			if id < m.maxOpened {
				return ce("stream id lower than the latest", cProtocol, cStreamClose)
			}
			if op.NoEndHdrs {
				next := mOpenHdr
				if op.EndStream {
					next = mHcrHdr
				}
				return allowSet{OK: true, SE: []uint32{cProtocol, 7}, CE: []uint32{cProtocol}, Why: "HEADERS opening a stream, block unfinished (its list will be malformed)", Next: next}
			}
			return allowSet{SE: []uint32{cProtocol, 7}, CE: []uint32{cProtocol}, Why: "§8.1.2.6: request without the mandatory pseudo-headers is malformed", Next: mClosedSrvRST}
		case "headers":
			if id < m.maxOpened {
				return ce("stream id lower than the latest", cProtocol, cStreamClose)
			}
			next := mOpen
			switch {
			case op.NoEndHdrs && op.EndStream:
				next = mHcrHdr
			case op.NoEndHdrs:
				next = mOpenHdr
			case op.EndStream:
				next = mHcr
			}
			if m.open >= m.maxStreams {
				return allowSet{SE: []uint32{7, cProtocol}, CE: []uint32{7, cProtocol}, Why: "§5.1.2: over SETTINGS_MAX_CONCURRENT_STREAMS", Next: mClosedSrvRST}
			}
			if m.zombies != nil && m.open+m.zombies() >= m.maxStreams {
				// streams the peer has reset keep their slot while their handler is still running (documented: it is what
				// bounds a rapid-reset flood); the server may count them or not
				return allowSet{OK: true, SE: []uint32{7}, Why: "§5.1.2: at the limit if reset streams with a running handler are counted", Next: next}
			}
			return ok("§5.1: HEADERS opens an idle stream", next)
		case "priority":
			if selfDep(op, id) {
				return se("§5.3.1: a stream cannot depend on itself", cProtocol)
			}
			return ok("§5.1: PRIORITY on an idle stream; the stream stays idle", mIdle)
		default:
			return ce("§5.1: only HEADERS and PRIORITY are allowed on an idle stream", cProtocol)
		}
	case mOpenHdr, mHcrHdr, mTrailerHdr:
		// only CONTINUATION reaches here (blockOn check above)
		next := st
		if !op.NoEndHdrs {
			switch st {
			case mOpenHdr:
				next = mOpen
			default:
				next = mHcr
			}
		}
		if m.malformed[id] {
			if op.NoEndHdrs {
				return allowSet{OK: true, SE: []uint32{cProtocol}, CE: []uint32{cProtocol}, Why: "CONTINUATION of a block whose list is malformed", Next: next}
			}
			return allowSet{SE: []uint32{cProtocol}, CE: []uint32{cProtocol}, Why: "§8.1.2.6: the completed header list is malformed", Next: mClosedSrvRST}
		}
		return ok("§6.10: CONTINUATION continues the header block", next)
	case mOpen:
		switch k {
		case "data":
			next := mOpen
			if op.EndStream {
				next = mHcr
			}
			return ok("§5.1: DATA on an open stream", next)
		case "trailers":
			next := mHcr
			if op.NoEndHdrs {
				next = mTrailerHdr
			}
			return ok("§8.1: trailers (HEADERS with END_STREAM)", next)
		case "headers2", "headers":
			if op.NoEndHdrs {
				// the block goes on: the stream error may be held back until END_HEADERS (§4.3: the block is decoded in any case)
				return allowSet{OK: true, SE: []uint32{cProtocol}, CE: []uint32{cProtocol}, Why: "§8.1: a second HEADERS without END_STREAM is malformed (block unfinished)", Next: mOpenHdr}
			}
			return se("§8.1: a second HEADERS without END_STREAM is malformed", cProtocol)
		case "continuation":
			return ce("CONTINUATION without a header block", cProtocol)
		}
	case mHcr:
		switch k {
		case "data", "headers", "headers2", "trailers":
			return se("§5.1: half-closed (remote): only WINDOW_UPDATE, PRIORITY, RST_STREAM", cStreamClose)
		case "continuation":
			return ce("CONTINUATION without a header block", cProtocol)
		}
	case mClosedPeer:
		switch k {
		case "priority":
			if selfDep(op, id) {
				return allowSet{OK: true, SE: []uint32{cProtocol}, CE: []uint32{cProtocol}, Why: "PRIORITY self-dependency on a closed stream", Next: st}
			}
			return ok("§5.1: PRIORITY on a closed stream", st)
		case "data", "headers", "headers2", "trailers":
			return se("§5.1: frame on a stream the peer has reset", cStreamClose)
		case "continuation":
			return ce("CONTINUATION without a header block", cProtocol)
		default:
			return allowSet{OK: true, SE: []uint32{cStreamClose}, CE: []uint32{cStreamClose}, Why: "WINDOW_UPDATE/RST_STREAM after the peer's own RST_STREAM", Next: st}
		}
	case mClosedSrvEnd:
		switch k {
		case "priority":
			if selfDep(op, id) {
				return allowSet{OK: true, SE: []uint32{cProtocol}, CE: []uint32{cProtocol}, Why: "PRIORITY self-dependency on a closed stream", Next: st}
			}
			return ok("§5.1: PRIORITY on a closed stream", st)
		case "wupd", "rst":
			return allowSet{OK: true, CE: []uint32{cProtocol}, Why: "§5.1: WINDOW_UPDATE/RST_STREAM some time after the stream closed", Next: st}
		case "continuation":
			return ce("CONTINUATION without a header block", cProtocol)
		case "headers", "headers2", "trailers":
			return se("§5.1 / §5.1.1: HEADERS on a closed stream (STREAM_CLOSED) is also an unexpected stream identifier (PROTOCOL_ERROR)", cStreamClose, cProtocol)
		default:
			return se("§5.1: frame on a closed stream", cStreamClose)
		}
	case mClosedSrvRST:
		switch k {
		case "continuation":
			if m.blockOn == id {
				return allowSet{OK: true, SE: []uint32{cStreamClose, cProtocol, 7}, CE: []uint32{cStreamClose}, Why: "§4.3: the rest of a header block whose stream the server has already reset must still be accepted", Next: st}
			}
			return ce("CONTINUATION without a header block", cProtocol)
		case "priority":
			if selfDep(op, id) {
				return allowSet{OK: true, SE: []uint32{cProtocol}, CE: []uint32{cProtocol}, Why: "PRIORITY self-dependency on a closed stream", Next: st}
			}
			return ok("§5.1: PRIORITY on a closed stream", st)
		case "headers", "headers2", "trailers":
			return allowSet{OK: true, SE: []uint32{cStreamClose, 7, cProtocol}, CE: []uint32{cStreamClose, cProtocol}, Why: "§5.1/§5.1.1: HEADERS on a stream the server has reset (late): ignore, STREAM_CLOSED, or an unexpected stream identifier", Next: st}
		default:
			return allowSet{OK: true, SE: []uint32{cStreamClose, 7}, CE: []uint32{cStreamClose, cProtocol}, Why: "§5.1: frame after the server's RST_STREAM (late)", Next: st}
		}
	}
	// common to open and half-closed(remote)
	switch k {
	case "wupd":
		w := m.window[id]
		if m.srvSent != nil {
			w -= m.srvSent(id)
		}
		switch {
		case op.Incr == 0:
			return se("§6.9: WINDOW_UPDATE with increment 0", cProtocol)
		case w+int64(op.Incr) > 1<<31-1:
			return allowSet{SE: []uint32{cFlowControl}, CE: []uint32{cFlowControl}, Why: "§6.9.1: window above 2^31-1", Next: mClosedSrvRST}
		}
		return ok("§6.9: WINDOW_UPDATE within 2^31-1 (exactly 2^31-1 is legal)", st)
	case "priority":
		if selfDep(op, id) {
			return se("§5.3.1: a stream cannot depend on itself", cProtocol)
		}
		return ok("§6.3: PRIORITY", st)
	case "rst":
		return ok("§6.4: RST_STREAM closes the stream, no reply", mClosedPeer)
	}
	return ok("(no rule: permissive)", st)
}

// apply advances the peer-side model after the reaction actually observed.
func (m *model) apply(op *Op, id uint32, a allowSet, observed string) {
	if !a.OK {
		m.legal = false
	}
	// a HEADERS frame without END_HEADERS opens a header block whatever becomes of its stream: the next frame
	// must be its CONTINUATION (§4.3, §6.10); a CONTINUATION with END_HEADERS closes it
	isHdr := op.Kind == "headers" || op.Kind == "headers2" || op.Kind == "trailers"
	defer func() {
		if strings.HasPrefix(observed, "CE") {
			return
		}
		if isHdr && op.NoEndHdrs {
			m.blockOn = id
		}
		if op.Kind == "continuation" && !op.NoEndHdrs && m.blockOn == id {
			m.blockOn = 0
		}
	}()
	if strings.HasPrefix(observed, "SE") {
		if s := m.state(id); s == mOpen || s == mOpenHdr || s == mHcr || s == mHcrHdr || s == mTrailerHdr {
			m.open--
		}
		m.st[id] = mClosedSrvRST
		if id > m.maxOpened && id%2 == 1 && (op.Kind == "headers" || op.Kind == "headers2" || op.Kind == "trailers") {
			m.maxOpened = id
		}
		delete(m.complete, id)
		return
	}
	if observed != "ok" {
		return
	}
	prev := m.state(id)
	if prev == mIdle && (op.Kind == "headers2" || op.Kind == "trailers") && id%2 == 1 && !m.implicitlyClosed(id) {
		m.malformed[id] = true
	}
	if prev == mOpen && (op.Kind == "headers2" || op.Kind == "headers") && op.NoEndHdrs {
		m.malformed[id] = true
	}
	switch op.Kind {
	case "headers", "headers2", "trailers":
		if prev == mIdle && id%2 == 1 {
			if id > m.maxOpened {
				m.maxOpened = id
			}
			m.open++
			m.window[id] = m.initWin
		}
	case "wupd":
		if id != 0 {
			m.window[id] += int64(op.Incr)
		}
	case "rst":
		if prev == mOpen || prev == mOpenHdr || prev == mHcr || prev == mHcrHdr || prev == mTrailerHdr {
			m.open--
		}
		delete(m.complete, id)
	}
	if op.Kind == "unknown" || id == 0 || id%2 == 0 || (m.implicitlyClosed(id) && prev == mIdle) {
		return
	}
	if op.Kind == "priority" && prev == mIdle {
		return // stays idle
	}
	if a.Next != prev || op.Kind == "headers" || op.Kind == "headers2" || op.Kind == "trailers" {
		m.st[id] = a.Next
	}
	switch a.Next {
	case mOpenHdr, mHcrHdr, mTrailerHdr:
		m.blockOn = id
	default:
		// a header block on a stream the server has reset stays open until its END_HEADERS like any other
		if m.blockOn == id && !((isHdr || op.Kind == "continuation") && op.NoEndHdrs) {
			m.blockOn = 0
		}
	}
	if a.Next == mHcr && prev != mHcr && a.OK {
		m.ever[id] = true
		m.complete[id] = true
	}
}

// ---- the walk ----

// GenC08 generates a frame walk over {HEADERS ±END_STREAM ±END_HEADERS, CONTINUATION, DATA, trailers, second HEADERS,
// RST_STREAM, WINDOW_UPDATE(0, n, to exactly 2^31-1, beyond), PRIORITY(self/other), unknown types} on several ids.
func GenC08(r *RNG) *SrvPlan    { return genC08(r, true) }
func GenC08All(r *RNG) *SrvPlan { return genC08(r, false) }

// avoid: no PRIORITY on a stream id that has not been opened (known finding: it allocates a stream entry that
// derails everything sent on that id afterwards), so that other deviations are not hidden behind it.
func genC08(r *RNG, avoid bool) *SrvPlan {
	p := &SrvPlan{Family: "c08"}
	mcs := Pick(r, 2, 4, 16)
	p.Srv = SrvCfg{MaxConcurrentStreams: mcs, PingInterval: -1, MaxRequestBodySize: 1 << 20}
	p.Peer = PeerCfg{InitialWindow: -1, MaxFrameSize: -1, HeaderTableSize: -1, AutoWindow: true, ConnWindowBoost: 1 << 20}
	// "hold": handlers stay in their gates until the walk is over, so that frames arrive for streams whose handler is
	// still running (after the peer's own RST_STREAM in particular)
	p.GateMode = Pick(r, "open", "open", "sched", "walk-hold")
	n := 3 + r.Intn(12)
	var used []int // ids touched so far
	next := 1
	pickID := func() int {
		switch r.Intn(10) {
		case 0:
			id := next + 2*r.Intn(2) // possibly skipping an id
			return id
		case 1:
			return 2 + 2*r.Intn(5)
		case 2:
			if next > 3 {
				return 1 + 2*r.Intn((next-1)/2) // lower id, possibly never used
			}
		case 3:
			return next + 40
		}
		if len(used) > 0 && r.Intn(3) != 0 {
			return used[r.Intn(len(used))]
		}
		return next
	}
	l := Lane{Name: "walk", After: -1}
	// a directed opening, now and then: fill every slot, have one more stream refused on an id that skips one, then
	// come back to the skipped id (RFC 7540 5.1.1: the refused stream has used its id, and the ones below it)
	var script []Op
	if r.Intn(6) == 0 {
		mcs = 2
		p.Srv.MaxConcurrentStreams = 2
		hd := func(id int, es bool) Op {
			return Op{Kind: "headers", Pad: -1, TableSize: -1, StreamRef: id, EndStream: es,
				Fields: []HF{{":method", "POST"}, {":scheme", "https"}, {":path", fmt.Sprintf("/s/%d", id)}, {":authority", "example.com"}, {"x-rid", fmt.Sprint(id)}}}
		}
		script = []Op{hd(1, r.Intn(2) == 0), hd(3, r.Intn(2) == 0), hd(7, true)}
		for k := r.Intn(3); k > 0; k-- {
			script = append(script, Op{Kind: Pick(r, "wupd", "priority"), Pad: -1, TableSize: -1, StreamRef: Pick(r, 1, 3), Incr: 10, PrioDep: 0})
		}
		script = append(script, hd(5, true))
		next = 9
		n = len(script) + r.Intn(4)
	}
	for i := 0; i < n; i++ {
		id := pickID()
		if i < len(script) {
			used = append(used, script[i].StreamRef)
			l.Ops = append(l.Ops, script[i])
			continue
		}
		op := Op{Pad: -1, TableSize: -1, StreamRef: id}
		switch r.Intn(15) {
		case 14:
			// a frame of the connection itself (stream 0): nothing to react to, unless a header block is open
			op.Kind = Pick(r, "ping", "conn-wupd", "conn-settings")
			op.StreamRef = 0
			id = 0
		case 0, 1, 2, 3:
			op.Kind = "headers"
			if id < next && r.Intn(3) != 0 {
				id = next
				op.StreamRef = id
			}
			op.Fields = []HF{{":method", "POST"}, {":scheme", "https"}, {":path", fmt.Sprintf("/w/%d", i)}, {":authority", "example.com"}, {"x-rid", fmt.Sprint(id)}}
			op.EndStream = r.Intn(2) == 0
			op.NoEndHdrs = r.Intn(4) == 0
			if id >= next && id%2 == 1 {
				next = id + 2
			}
		case 4:
			op.Kind = "continuation"
			op.NoEndHdrs = r.Intn(4) == 0
		case 5, 6:
			op.Kind = "data"
			op.Len = Pick(r, 0, 1, 100)
			op.EndStream = r.Intn(2) == 0
		case 7:
			op.Kind = "trailers"
			op.Fields = []HF{{"x-trailer", "t"}}
			op.EndStream = true
			op.NoEndHdrs = r.Intn(5) == 0
		case 8:
			op.Kind = "headers2"
			op.Fields = []HF{{"x-more", "m"}}
		case 9:
			op.Kind = "rst"
			op.Code = 8
		case 10, 11:
			op.Kind = "wupd"
			op.Incr = uint32(Pick(r, 0, 1, 1000, 1<<31-1-65535, 1<<31-65535, 1<<31-1))
		case 12:
			op.Kind = "priority"
			op.PrioDep = Pick(r, 0, 0, -1, 3)
			if avoid {
				opened := false
				for j, u := range used {
					if u == id && l.Ops[j].Kind == "headers" {
						opened = true
					}
				}
				if !opened {
					op.Kind = "unknown"
					op.RawType = 10
				}
			}
		case 13:
			op.Kind = "unknown"
			op.RawType = uint8(Pick(r, 10, 11, 200))
			op.RawLen = r.Intn(20)
		}
		if r.Intn(4) == 0 {
			// flag bits that mean nothing for this type of frame
			var undefined []uint8
			switch op.Kind {
			case "headers", "trailers", "headers2":
				undefined = []uint8{0x02, 0x10, 0x40, 0x80}
			case "data":
				undefined = []uint8{0x02, 0x04, 0x10, 0x20, 0x40, 0x80}
			case "continuation":
				undefined = []uint8{0x01, 0x01, 0x02, 0x08, 0x20}
			case "rst", "wupd", "priority", "unknown":
				undefined = []uint8{0x01, 0x01, 0x01, 0x04, 0x08, 0x20, 0x05}
			}
			if len(undefined) > 0 {
				op.JunkFlags = undefined[r.Intn(len(undefined))]
			}
		}
		if id != 0 {
			used = append(used, id)
		} else {
			used = append(used, next) // keeps used and l.Ops in step
		}
		l.Ops = append(l.Ops, op)
	}
	p.Lanes = []Lane{l}
	p.Mask = genMask(r)
	p.PoolPol = r.Intn(3)
	p.Strategy = genStrategy(r)
	p.SelSeed = r.Uint64()
	p.Frag = r.Intn(3) == 0
	return p
}

// c08Encode turns a walk op into wire bytes (through the peer's stateful HPACK encoder).
func (w *SrvWorld) c08Encode(op *Op, idx int) []byte {
	b := w.c08Encode0(op, idx)
	if len(b) >= 9 && op.JunkFlags != 0 {
		b[4] |= op.JunkFlags
		w.Probes["undefined-flags"]++
	}
	return b
}

func (w *SrvWorld) c08Encode0(op *Op, idx int) []byte {
	id := uint32(op.StreamRef)
	switch op.Kind {
	case "headers", "trailers", "headers2":
		// literal fields without indexing and with literal names: the walk must not depend on HPACK state
		reps := make([]Rep, len(op.Fields))
		for i := range reps {
			reps[i] = 2 | 16
		}
		blk, err := w.enc.EncodeBlock(op.Fields, reps)
		if err != nil {
			w.Harness = err.Error()
			return nil
		}
		cut := len(blk)
		if op.NoEndHdrs {
			cut = len(blk) / 2
			w.c08Rest = blk[cut:]
		}
		return w.fw.Headers(id, blk[:cut], op.EndStream, !op.NoEndHdrs, -1, false, 0, 0)
	case "continuation":
		rest := w.c08Rest
		if op.NoEndHdrs && len(rest) > 1 {
			w.c08Rest = rest[len(rest)/2:]
			rest = rest[:len(rest)/2]
		} else {
			w.c08Rest = nil
		}
		return w.fw.Continuation(id, rest, !op.NoEndHdrs)
	case "data":
		return w.fw.Data(id, op.EndStream, genBody(idx, op.Len), -1)
	case "rst":
		return w.fw.RST(id, op.Code)
	case "wupd":
		return w.fw.WindowUpdate(id, op.Incr)
	case "priority":
		dep := uint32(op.PrioDep)
		if op.PrioDep < 0 {
			dep = id
		}
		return w.fw.Priority(id, dep, false, 10)
	case "unknown":
		return w.fw.Raw(op.RawType, 0, id, make([]byte, op.RawLen))
	case "ping":
		return w.fw.Ping(false, [8]byte{'w', 'a', 'l', 'k', byte(idx), 0, 0, 0})
	case "conn-wupd":
		return w.fw.WindowUpdate(0, 1)
	case "conn-settings":
		return w.fw.Settings()
	}
	return nil
}

// RunC08 sends the walk frame by frame; after each frame the system runs to quiescence (that is what tells
// "ignored" from "not yet processed"), the new output is classified and compared with the model's allowed set.
func RunC08(plan *SrvPlan, tape *Tape, searchSeed uint64) *RunResult {
	res := &RunResult{Property: "C08", Family: plan.Family}
	sim := NewSim(tape, NewRNG(searchSeed))
	w := NewSrvWorld(sim, plan)
	w.manualLanes = true
	m := newModel(plan.Srv.MaxConcurrentStreams, 65535)
	m.srvSent = func(id uint32) int64 {
		if ps := w.Streams[id]; ps != nil {
			return ps.RecvBytes
		}
		return 0
	}
	m.zombies = func() int {
		n := 0
		for rid, e := range w.Entries {
			if rid >= 0 && e > w.Exits[rid] {
				if st := m.state(uint32(rid)); st == mClosedPeer || st == mClosedSrvRST {
					n++
				}
			}
		}
		return n
	}
	sim.RunPhase(w, 0, false)
	rows := map[string]bool{}
	var steps []string
	ops := plan.Lanes[0].Ops
	seenFrames := len(w.Frames)
	ended := false
	prioIdle := false
	for i := range ops {
		if sim.Viol != nil || sim.Steps >= sim.MaxSteps || ended {
			break
		}
		op := &ops[i]
		id := uint32(op.StreamRef)
		if op.Kind == "continuation" && m.blockOn != id && len(w.c08Rest) == 0 {
			w.c08Rest = []byte{0x82} // a CONTINUATION out of the blue carries some valid-looking bytes
		}
		a := m.allowed(op, id)
		stBefore := m.state(id)
		if op.Kind == "priority" && stBefore == mIdle && id%2 == 1 {
			prioIdle = true // from here on the server has a stream entry for an id that was never opened
		}
		if m.implicitlyClosed(id) {
			rows["implicitly-closed/"+op.Kind] = true
		} else {
			rows[stBefore.String()+"/"+op.Kind] = true
		}
		b := w.c08Encode(op, i)
		if b == nil {
			break
		}
		w.c2s.Inject(b)
		w.opsSent++
		sim.Logf("walk[%d] %s on stream %d (state %s) es=%v noEH=%v incr=%d: allowed %s", i, op.Kind, id, stBefore, op.EndStream, op.NoEndHdrs, op.Incr, fmtAllow(a))
		sim.RunPhase(w, 0, false)
		w.peerReceive()
		// classify what came out
		observed := "ok"
		var detail string
		for _, f := range w.Frames[seenFrames:] {
			switch f.Type {
			case FGoAway:
				observed = fmt.Sprintf("CE(%d)", f.Code)
				detail = fmt.Sprintf("GOAWAY(last=%d, code=%d, %.60q)", f.LastStream, f.Code, f.Debug)
			case FRST:
				if !strings.HasPrefix(observed, "CE") {
					if f.Stream == id {
						observed = fmt.Sprintf("SE(%d)", f.Code)
						detail = fmt.Sprintf("RST_STREAM(stream=%d, code=%d)", f.Stream, f.Code)
					} else {
						observed = fmt.Sprintf("SE-other(%d)", f.Code)
						detail = fmt.Sprintf("RST_STREAM(code=%d) on stream %d although the frame was sent on stream %d", f.Code, f.Stream, id)
					}
				}
			}
		}
		seenFrames = len(w.Frames)
		if observed == "ok" && (w.PeerEOF || w.Returned) {
			observed = "CE(close)"
			detail = "the server closed the connection"
		}
		steps = append(steps, fmt.Sprintf("%s@%d[%s]→%s", op.Kind, id, stBefore, observed))
		okv := false
		switch {
		case observed == "ok":
			okv = a.OK
		case strings.HasPrefix(observed, "SE("):
			var c uint32
			fmt.Sscanf(observed, "SE(%d)", &c)
			okv = containsU(a.SE, c)
		case observed == "CE(close)":
			okv = len(a.CE) > 0
		case strings.HasPrefix(observed, "CE("):
			var c uint32
			fmt.Sscanf(observed, "CE(%d)", &c)
			okv = containsU(a.CE, c)
		}
		if !okv {
			where := stBefore.String()
			if m.implicitlyClosed(id) {
				where = "implicitly-closed"
			}
			pre := ""
			if prioIdle {
				pre = "after-priority-on-idle/"
			}
			sim.Viol = &Violation{Property: "C08", Rule: "reaction-not-allowed", Sig: fmt.Sprintf("%sreaction/%s/%s/%s", pre, observed, strings.ReplaceAll(where, " ", "-"), op.Kind),
				Detail: fmt.Sprintf("frame %d of the walk: %s on stream %d in state %q drew %s %s; RFC 7540 allows %s [%s]; walk so far: %s", i, op.Kind, id, where, observed, detail, fmtAllow(a), a.Why, strings.Join(steps, " "))}
			break
		}
		m.apply(op, id, a, observed)
		if strings.HasPrefix(observed, "CE") {
			ended = true
		}
		// a response that completed moves the stream to closed(server END_STREAM) in the peer's model
		for sid, ps := range w.Streams {
			if ps.EndStreams > 0 && m.state(sid) == mHcr {
				m.st[sid] = mClosedSrvEnd
				m.open--
			}
			if len(ps.RST) > 0 && sid != id && m.state(sid) != mClosedSrvRST && m.state(sid) != mClosedPeer {
				m.st[sid] = mClosedSrvRST
			}
		}
	}
	// drain: gates open, then judge dispatch
	if sim.Viol == nil && sim.Steps < sim.MaxSteps {
		w.phase = 1
		sim.RunPhase(w, 0, false)
		w.peerReceive()
		// the handler may run only for requests the model saw completed legally
		for rid, cnt := range w.Entries {
			if rid < 0 {
				continue
			}
			id := uint32(rid) // walk requests carry their stream id in x-rid
			if cnt > 1 {
				sim.Viol = &Violation{Property: "C08", Rule: "dispatched-twice", Sig: prioPre(prioIdle) + "dispatched-twice", Detail: fmt.Sprintf("the request on stream %d (x-rid %d) was dispatched %d times; walk: %s", id, rid, cnt, strings.Join(steps, " "))}
			} else if !m.everComplete(id) {
				sim.Viol = &Violation{Property: "C08", Rule: "dispatched-incomplete", Sig: prioPre(prioIdle) + "dispatched-incomplete/" + strings.ReplaceAll(m.state(id).String(), " ", "-"),
					Detail: fmt.Sprintf("the handler ran for stream %d whose request never completed legally (model state %s); walk: %s", id, m.state(id), strings.Join(steps, " "))}
			}
		}
		if sim.Viol == nil && !ended {
			ids := make([]int, 0, len(m.complete))
			for id := range m.complete {
				ids = append(ids, int(id))
			}
			sort.Ints(ids)
			for _, id := range ids {
				ps := w.Streams[uint32(id)]
				if ps == nil || (ps.EndStreams == 0 && len(ps.RST) == 0) {
					sim.Viol = &Violation{Property: "C08", Rule: "legal-request-not-served", Sig: prioPre(prioIdle) + "legal-request-not-served",
						Detail: fmt.Sprintf("stream %d carried a legal, complete request but got no complete response; walk: %s", id, strings.Join(steps, " "))}
					break
				}
			}
		}
	}
	if sim.Viol == nil && sim.Steps < sim.MaxSteps {
		w.phase = 2
		w.PeerClose()
		sim.RunPhase(w, 5e9, false)
	}
	res.Nontrivial = len(rows) >= 3
	res.Probes = w.Probes
	for k := range rows {
		res.Probes["row:"+k]++
	}
	res.Summary = strings.Join(steps, " ")
	sim.finish(res)
	return res
}

func (m *model) everComplete(id uint32) bool {
	if m.complete[id] || m.ever[id] {
		return true
	}
	s := m.state(id)
	return s == mHcr || s == mClosedSrvEnd
}

func containsU(xs []uint32, x uint32) bool {
	for _, y := range xs {
		if y == x {
			return true
		}
	}
	return false
}

func fmtAllow(a allowSet) string {
	var parts []string
	if a.OK {
		parts = append(parts, "process/ignore")
	}
	if len(a.SE) > 0 {
		parts = append(parts, fmt.Sprintf("stream error %v", a.SE))
	}
	if len(a.CE) > 0 {
		parts = append(parts, fmt.Sprintf("connection error %v or close", a.CE))
	}
	return strings.Join(parts, " | ")
}

func prioPre(b bool) string {
	if b {
		return "after-priority-on-idle/"
	}
	return ""
}
