package harness

import "time"

// CliReq is one request a caller hands to the client connection, and how that caller behaves.
type CliReq struct {
	Method string `json:"method"`
	Path   string `json:"path"`
	Host   string `json:"host"`
	Fields []HF   `json:"fields"`
	// body
	BodyLen     int    `json:"body_len"`
	BodyMode    string `json:"body_mode"` // none | buffered | stream-declared | stream-unknown | stream-zero
	ReadSizes   []int  `json:"read_sizes,omitempty"`
	ErrAt       int    `json:"err_at"` // -1: the body reader never fails
	EOFWithData bool   `json:"eof_with_data,omitempty"`
	// StartAfter >= 0: the caller starts only after caller StartAfter has returned
	StartAfter int `json:"start_after"`
	// Cancel: "" | "any" — Conn.Cancel(ctx) is offered to the scheduler once the request has a stream id;
	// "seen-stalled": once the scripted server has seen the request and the link towards it is stalled
	Cancel string `json:"cancel,omitempty"`
}

// CliPlan is the complete workload of a client-side run.
type CliPlan struct {
	Family              string        `json:"family"`
	PingInterval        time.Duration `json:"ping_interval"`
	DisablePingChecking bool          `json:"disable_ping_checking"`
	Srv                 PeerCfg       `json:"srv"`             // what the scripted server advertises and how it grants credit
	SrvMaxStreams       int64         `json:"srv_max_streams"` // -1: not sent
	NoPingAck           bool          `json:"no_ping_ack,omitempty"`
	// BadPreface: what the server sends before (or instead of) its first SETTINGS: "" | ping-first | goaway-first | garbage | data-first
	BadPreface string   `json:"bad_preface,omitempty"`
	Reqs       []CliReq `json:"reqs"`
	// Lanes[i] for i < len(Reqs) is the scripted response to request i (enabled once the request's HEADERS,
	// or with WaitEnd its END_STREAM, has been received); further lanes are connection-level control lanes.
	Lanes    []Lane   `json:"lanes"`
	Faults   []Fault  `json:"faults,omitempty"`
	Mask     []string `json:"mask,omitempty"`
	PoolPol  int      `json:"pool_policy"`
	Strategy Strategy `json:"strategy"`
	SelSeed  uint64   `json:"sel_seed"`
	Frag     bool     `json:"frag"`
	DelayC2S bool     `json:"delay_c2s"`
	MaxSteps int      `json:"max_steps"`
	Trail    string   `json:"trail,omitempty"`
	// CloseAt: "" | "sched": Conn.Close() is offered to the scheduler as an environment action during the workload
	CloseAt string `json:"close_at,omitempty"`
	// MaxResponseTime for Client-level runs (0 = not a Client-level run)
	MaxResponseTime time.Duration `json:"max_response_time,omitempty"`
}
