package harness

import (
	"bytes"
	"fmt"
	"sort"
	"strconv"
	"strings"
	"time"
)

// GenC01 generates a plan of well-formed multiplexed requests.
func GenC01(r *RNG) *SrvPlan {
	p := &SrvPlan{Family: "c01"}
	mcs := Pick(r, 1, 2, 4, 16)
	p.Srv = SrvCfg{MaxConcurrentStreams: mcs, PingInterval: -1, MaxRequestBodySize: Pick(r, 0, 1<<20)}
	p.Peer = PeerCfg{InitialWindow: Pick(r, int64(-1), 1<<20, 1<<24), MaxFrameSize: Pick(r, int64(-1), 16384, 65536), HeaderTableSize: Pick(r, int64(-1), 4096, 256, 0),
		AutoWindow: true, ConnWindowBoost: 1 << 24, LinkCap: Pick(r, 0, 0, 4096, 100000)}
	if r.Intn(3) == 0 {
		// replies held by the peer's windows (the connection's above all) and released by as few grants as it takes
		p.Peer.AutoWindow = false
		p.Peer.DrainGrants = true
		p.Peer.ConnWindowBoost = Pick(r, uint32(0), 0, 100000)
	}
	n := 1 + r.Intn(min(mcs, 6))
	o := ReqOpts{MaxBody: 150000, Variety: r.Intn(4) != 0, Splits: r.Intn(3) != 0, Padding: r.Intn(2) == 0, Trailers: r.Intn(2) == 0, Underscore: true,
		RespModes: []string{"buffered", "buffered", "stream-declared", "stream-unknown", "stream-zero"}, RespMaxBody: 100000}
	for i := 0; i < n; i++ {
		p.Lanes = append(p.Lanes, GenRequestLane(r, i, o))
	}
	// followers that reuse slots after earlier responses completed
	nf := r.Intn(3)
	for i := 0; i < nf; i++ {
		l := GenRequestLane(r, len(p.Lanes), o)
		// the first follower takes over the slot of one concurrent lane, every later one the slot of
		// the follower before it, so the number of open streams never exceeds n ≤ MaxConcurrentStreams
		if i == 0 {
			l.After = r.Intn(n)
		} else {
			l.After = len(p.Lanes) - 1
		}
		l.AfterResp = true
		p.Lanes = append(p.Lanes, l)
	}
	if r.Intn(8) == 0 {
		// request header blocks that fill the server's HPACK table to the octet and then refer to its oldest entry
		hpackTableFull(r, p.Lanes, 4096)
	}
	p.GateMode = Pick(r, "sched", "sched", "open")
	p.Mask = genMask(r)
	p.PoolPol = r.Intn(3)
	p.Strategy = genStrategy(r)
	p.SelSeed = r.Uint64()
	p.Frag = r.Intn(2) == 0
	p.DelayS2C = r.Intn(2) == 0
	return p
}

func multiset(fs []HF) map[string]int {
	m := map[string]int{}
	for _, f := range fs {
		m[f.Name+"\x00"+f.Value]++
	}
	return m
}

func fmtHFs(fs []HF) string {
	var sb strings.Builder
	for i, f := range fs {
		if i > 0 {
			sb.WriteString(", ")
		}
		v := f.Value
		if len(v) > 40 {
			v = v[:40] + "…"
		}
		fmt.Fprintf(&sb, "%q=%q", f.Name, v)
	}
	return sb.String()
}

// checkRequestSeen compares what the handler saw with what the peer sent (C01 first half).
func checkRequestSeen(l *Lane, s *Snapshot) (rule, detail string) {
	q := l.Req
	if s.Method != q.Method {
		return "request-method", fmt.Sprintf("sent %q, handler saw %q", q.Method, s.Method)
	}
	if s.URI != q.Path {
		return "request-path", fmt.Sprintf("sent %q, handler saw %q", q.Path, s.URI)
	}
	if s.Host != q.Authority {
		return "request-authority", fmt.Sprintf("sent %q, handler saw %q", q.Authority, s.Host)
	}
	if !bytes.Equal(s.Body, q.Body) {
		return "request-body", fmt.Sprintf("sent %d bytes, handler saw %d bytes (first difference at %d)", len(q.Body), len(s.Body), firstDiff(s.Body, q.Body))
	}
	want := append(append([]HF(nil), q.Fields...), q.Trailers...)
	wm := multiset(want)
	var got []HF
	for _, f := range s.Fields {
		// the server materialises :authority as a Host header; fasthttp exposes content-length it computed itself
		if f.Name == "host" && f.Value == q.Authority {
			continue
		}
		got = append(got, f)
	}
	gm := multiset(got)
	for k, n := range wm {
		if gm[k] < n {
			kv := strings.SplitN(k, "\x00", 2)
			name := kv[0]
			// fasthttp keeps one value for these and exposes them through accessors
			switch name {
			case "user-agent":
				if s.UserAgent == kv[1] {
					continue
				}
			case "content-type":
				if s.ContentType == kv[1] {
					continue
				}
			case "content-length":
				if strconv.Itoa(s.ContentLength) == kv[1] {
					continue
				}
			}
			disc := "field"
			if strings.Contains(name, "_") {
				disc = "underscore"
			}
			return "request-field-missing/" + disc, fmt.Sprintf("sent %q=%q ×%d, handler saw ×%d; handler's view: %s", kv[0], kv[1], n, gm[k], fmtHFs(s.Fields))
		}
	}
	for k, n := range gm {
		if wm[k] < n {
			kv := strings.SplitN(k, "\x00", 2)
			switch kv[0] {
			case "content-length":
				if kv[1] == strconv.Itoa(len(q.Body)) {
					continue
				}
			case "user-agent", "content-type":
				continue // checked through the accessors above
			}
			return "request-field-extra", fmt.Sprintf("handler saw %q=%q ×%d, sent ×%d; sent: %s", kv[0], kv[1], n, wm[k], fmtHFs(want))
		}
	}
	return "", ""
}

func firstDiff(a, b []byte) int {
	n := min(len(a), len(b))
	for i := 0; i < n; i++ {
		if a[i] != b[i] {
			return i
		}
	}
	return n
}

// checkResponseSeen compares what the peer decoded on a stream with what the handler produced (C01 second half).
func checkResponseSeen(rid int, r *Resp, ps *PeerStream) (rule, detail string) {
	disc := "/mode=" + r.Mode
	if ps == nil {
		return "no-response" + disc, "the peer received nothing on the stream"
	}
	if ps.DecodeErr != "" {
		return "response-hpack" + disc, "x/net could not decode the response header block: " + ps.DecodeErr
	}
	if len(ps.RST) > 0 {
		return "response-rst" + disc, fmt.Sprintf("RST_STREAM code %d on a well-formed request", ps.RST[0])
	}
	if len(ps.HdrBlocks) == 0 {
		return "no-response-headers" + disc, "no HEADERS on the stream"
	}
	if len(ps.HdrBlocks) > 1 {
		return "response-headers-twice" + disc, fmt.Sprintf("%d header blocks", len(ps.HdrBlocks))
	}
	if len(ps.Order) > 0 && ps.Order[0] != "HEADERS" {
		return "response-order" + disc, "first frame on the stream is " + ps.Order[0]
	}
	if ps.Status != strconv.Itoa(r.Status) {
		return "response-status" + disc, fmt.Sprintf("handler set %d, peer got %q", r.Status, ps.Status)
	}
	want := multiset(r.Fields)
	got := multiset(ps.HdrBlocks[0])
	for k, n := range want {
		if got[k] != n {
			kv := strings.SplitN(k, "\x00", 2)
			d := "field"
			if strings.Contains(kv[0], "_") {
				d = "underscore"
			}
			return "response-field/" + d, fmt.Sprintf("handler set %q=%q ×%d, peer got ×%d; peer's view: %s", kv[0], kv[1], n, got[k], fmtHFs(ps.HdrBlocks[0]))
		}
	}
	body := RespBody(rid, r.BodyLen)
	for k := range got {
		if want[k] > 0 {
			continue
		}
		kv := strings.SplitN(k, "\x00", 2)
		switch kv[0] {
		case ":status", "content-type", "server", "date":
		case "content-length":
			if kv[1] != strconv.Itoa(len(body)) {
				return "response-content-length" + disc, fmt.Sprintf("content-length %q for a body of %d bytes", kv[1], len(body))
			}
		default:
			return "response-field-extra" + disc, fmt.Sprintf("peer got %q=%q which the handler did not set", kv[0], kv[1])
		}
	}
	if !bytes.Equal(ps.Data, body) {
		if ps.EndStreams == 0 && len(ps.Data) <= len(body) && bytes.Equal(ps.Data, body[:len(ps.Data)]) {
			return "response-incomplete" + disc, fmt.Sprintf("peer has %d of %d body bytes and no END_STREAM at quiescence", len(ps.Data), len(body))
		}
		return "response-body" + disc, fmt.Sprintf("handler produced %d bytes, peer got %d (first difference at %d)", len(body), len(ps.Data), firstDiff(ps.Data, body))
	}
	if ps.EndStreams == 0 {
		return "no-end-stream" + disc, fmt.Sprintf("all %d body bytes arrived but END_STREAM never did", len(body))
	}
	if ps.EndStreams > 1 {
		return "end-stream-twice" + disc, fmt.Sprintf("END_STREAM on %d frames", ps.EndStreams)
	}
	if len(ps.AfterEnd) > 0 {
		return "frames-after-end" + disc, "after END_STREAM: " + strings.Join(ps.AfterEnd, "; ")
	}
	return "", ""
}

// c01Online: a handler may never be entered twice for one request.
func c01Online(w *SrvWorld) *Violation {
	for rid, n := range w.Entries {
		if n > 1 {
			return &Violation{Property: "C01", Rule: "handler-twice", Sig: "handler-twice", Detail: fmt.Sprintf("handler entered %d times for request %d", n, rid)}
		}
	}
	return nil
}

// c01Final judges every well-formed lane at drain quiescence.
func c01Final(w *SrvWorld, prop string) *Violation {
	var ids []int
	for i := range w.lanes {
		ids = append(ids, i)
	}
	sort.Ints(ids)
	for _, i := range ids {
		l := w.lanes[i]
		if l.lane.Req == nil || l.lane.Offender != "" {
			continue
		}
		mk := func(rule, detail string) *Violation {
			return &Violation{Property: prop, Rule: strings.SplitN(rule, "/", 2)[0], Sig: rule, Detail: fmt.Sprintf("request %d (stream %d): %s", i, l.id, detail)}
		}
		if len(w.GoAways) > 0 {
			g := w.GoAways[0]
			return mk("goaway-on-wellformed/code="+strconv.Itoa(int(g.Code)), fmt.Sprintf("server sent GOAWAY(last=%d, code=%d, %q) although every frame was well-formed", g.LastStream, g.Code, g.Debug))
		}
		if !l.sentAll {
			return mk("peer-blocked", fmt.Sprintf("the peer could not send op %d of the lane: flow-control window never reopened (conn=%d stream=%d) or the link is closed", l.next, w.sendConnWin, l.sendWin))
		}
		if w.Entries[i] == 0 {
			if ps := w.Streams[l.id]; ps != nil && len(ps.RST) > 0 {
				if ps.RST[0] == 7 && w.overCommitted(l) {
					continue // the peer had the limit of streams open when it sent this one
				}
				return mk("request-refused/code="+strconv.Itoa(int(ps.RST[0])), fmt.Sprintf("RST_STREAM(%d) instead of a handler call", ps.RST[0]))
			}
			return mk("handler-never", "the handler was never called")
		}
		if rule, d := checkRequestSeen(l.lane, w.Snaps[i]); rule != "" {
			return mk(rule, d)
		}
		if rule, d := checkResponseSeen(i, l.lane.Resp, w.Streams[l.id]); rule != "" {
			return mk(rule, d)
		}
	}
	return nil
}

// RunSrv executes one server-side plan: workload phase, drain, final oracle, teardown.
func RunSrv(plan *SrvPlan, tape *Tape, searchSeed uint64, prop string, online func(*SrvWorld) *Violation, final func(*SrvWorld) *Violation, post func(*SrvWorld, *RunResult)) *RunResult {
	return RunSrvQ(plan, tape, searchSeed, prop, online, nil, final, post)
}

// RunSrvQ is RunSrv with an extra oracle evaluated at the quiescence that ends the workload phase (gates still as the plan says).
func RunSrvQ(plan *SrvPlan, tape *Tape, searchSeed uint64, prop string, online func(*SrvWorld) *Violation, atQ func(*SrvWorld) *Violation, final func(*SrvWorld) *Violation, post func(*SrvWorld, *RunResult)) *RunResult {
	res := &RunResult{Property: prop, Family: plan.Family}
	sim := NewSim(tape, NewRNG(searchSeed))
	w := NewSrvWorld(sim, plan)
	w.online = online
	// phase 0: workload (+ faults)
	sim.RunPhase(w, 0, plan.Strategy.TimeRace > 0)
	if sim.Viol == nil && sim.Steps < sim.MaxSteps && atQ != nil {
		w.peerReceive()
		if v := atQ(w); v != nil {
			sim.Viol = v
		}
	}
	// phase 1: drain — faults off, gates open eagerly
	if sim.Viol == nil {
		w.phase = 1
		sim.RunPhase(w, 0, false)
	}
	if sim.Viol == nil && sim.Steps < sim.MaxSteps && final != nil {
		w.peerReceive()
		if v := final(w); v != nil {
			sim.Viol = v
		}
	}
	// phase 2: teardown — the peer goes away; give the server its drain timeout
	if sim.Viol == nil && sim.Steps < sim.MaxSteps {
		w.phase = 2
		w.PeerClose()
		sim.RunPhase(w, 5*time.Second, false)
		w.Check()
	}
	if post != nil {
		post(w, res)
	}
	res.Probes = w.Probes
	res.Extra = w.ExtraViol
	res.PoolViol = len(sim.R.Pools.Viol)
	res.Summary = w.Summary()
	sim.finish(res)
	return res
}

// Summary is a short human-readable account of the run.
func (w *SrvWorld) Summary() string {
	var sb strings.Builder
	fmt.Fprintf(&sb, "lanes=%d streams=%d frames=%d goaways=%d returned=%v(%v) gaugeHWM=%d", len(w.lanes), len(w.Streams), len(w.Frames), len(w.GoAways), w.Returned, w.RetErr, w.GaugeHWM)
	return sb.String()
}

// c01Nontrivial: ≥2 streams overlapped in time and ≥1 header block was split or padded.
func c01Nontrivial(w *SrvWorld) bool {
	overlap := false
	ids := w.streamOrder
	for i := 0; i < len(ids) && !overlap; i++ {
		for j := i + 1; j < len(ids); j++ {
			a, b := w.Streams[ids[i]], w.Streams[ids[j]]
			if a.FirstAt <= b.DoneAt && b.FirstAt <= a.DoneAt {
				overlap = true
				break
			}
		}
	}
	return overlap && (w.Probes["header-block-split"] > 0 || w.Probes["headers-padded"] > 0)
}
