package harness

import (
	"fmt"
	"os"
	"strings"
	"time"
)

// GenC13: adversarial frame schedules of a seeded kind and length, handlers held.
func GenC13(r *RNG) *SrvPlan {
	p := &SrvPlan{Family: "c13"}
	mcs := Pick(r, 1, 2, 4, 16)
	maxBody := Pick(r, 64, 4096)
	maxHdr := Pick(r, 256, 4096, 0)
	p.Srv = SrvCfg{MaxConcurrentStreams: mcs, PingInterval: -1, MaxRequestBodySize: maxBody, MaxHeaderListSize: maxHdr}
	p.Peer = PeerCfg{InitialWindow: 1 << 20, MaxFrameSize: -1, HeaderTableSize: -1, AutoWindow: true, ConnWindowBoost: 1 << 24, LinkCap: Pick(r, 0, 4096)}
	kind := Pick(r, "rapid-reset", "half-open", "priority-idle", "continuation-flood", "continuation-long-field", "continuation-long-field-refused", "over-sent-body", "over-declared-body", "mis-declared-body", "ping-flood", "settings-flood", "timeout-refill", "trailers-over-limit", "mixed")
	n := Pick(r, 40, 150, 400)
	if k := os.Getenv("VERIF_C13_KIND"); k != "" {
		kind = k // development aid: pin the attack kind
	}
	if kind == "continuation-long-field" || kind == "continuation-long-field-refused" {
		n = Pick(r, 150, 400, 800)
		p.Peer.LinkCap = 0 // its frames are larger than the capped link lets through at once
	}
	if kind == "trailers-over-limit" {
		p.Srv.MaxHeaderListSize = 4096
		n = Pick(r, 10, 40)
	}
	p.Trail = "c13:" + kind
	hdrs := func(rid int, end bool) Op {
		return Op{Kind: "headers", Fields: []HF{{":method", "POST"}, {":scheme", "https"}, {":path", fmt.Sprintf("/a/%d", rid)}, {":authority", "example.com"}, {"x-rid", fmt.Sprint(rid)}}, EndStream: end, Pad: -1, TableSize: -1}
	}
	addReq := func(ops ...Op) {
		rid := len(p.Lanes)
		l := Lane{Name: fmt.Sprintf("adv%d", rid), OpensStream: true, After: -1, Offender: kind, Ops: ops,
			Resp: &Resp{Status: 200, Mode: "buffered", BodyLen: 10, ErrAt: -1}}
		if rid > 0 {
			l.After = rid - 1 // keep the flood ordered, one lane after the other was sent
		}
		p.Lanes = append(p.Lanes, l)
	}
	one := func(k string, i int) {
		rid := len(p.Lanes)
		switch k {
		case "rapid-reset":
			addReq(hdrs(rid, true), Op{Kind: "rst", Code: 8, Pad: -1, TableSize: -1})
		case "half-open":
			addReq(hdrs(rid, false))
		case "trailers-over-limit":
			// a header block and a trailer block that are each within MaxHeaderListSize and together well above it: the
			// handler is given one list
			h := hdrs(rid, false)
			h.Fields = append(h.Fields, HF{"x-fill", strings.Repeat("h", p.Srv.MaxHeaderListSize*55/100-250)})
			t := Op{Kind: "trailers", Fields: []HF{{"x-trail", strings.Repeat("t", p.Srv.MaxHeaderListSize*60/100)}}, EndStream: true, Pad: -1, TableSize: -1}
			addReq(h, Op{Kind: "data", Len: 10, Pad: -1, TableSize: -1}, t)
		case "timeout-refill":
			// complete requests whose handlers outlive ReadTimeout: the server gives up on the streams, the handlers keep
			// their slots, and the peer keeps asking
			addReq(hdrs(rid, true))
		case "priority-idle":
			l := Lane{Name: fmt.Sprintf("prio%d", rid), After: rid - 1, Offender: kind, Ops: []Op{{Kind: "priority", StreamRef: 20001 + 2*i, Pad: -1, TableSize: -1}}}
			p.Lanes = append(p.Lanes, l)
		case "continuation-flood":
			// one header block that never ends: HEADERS then CONTINUATION frames without END_HEADERS
			if i == 0 {
				h := hdrs(rid, false)
				h.NoEndHdrs = true
				addReq(h)
			} else {
				l := Lane{Name: fmt.Sprintf("cont%d", rid), After: rid - 1, Offender: kind, Ops: []Op{{Kind: "raw", RawType: FContinuation, RawFlags: 0, RawHex: "00" + strings.Repeat("61", 1) + "01" + "62", LaneRef: 1, Pad: -1, TableSize: -1}}}
				p.Lanes = append(p.Lanes, l)
			}
		case "continuation-long-field-refused":
			// the same never-ending field, on a stream the server does not serve: every slot is taken by a request whose
			// handler is held, so the stream that carries the block is refused and its block is only decoded for the sake
			// of the HPACK table
			switch {
			case i < mcs:
				addReq(hdrs(rid, true))
			case i == mcs:
				h := hdrs(rid, false)
				h.NoEndHdrs = true
				addReq(h)
			case i == mcs+1:
				l := Lane{Name: fmt.Sprintf("cont%d", rid), After: rid - 1, Offender: kind, Ops: []Op{{Kind: "raw", RawType: FContinuation, RawFlags: 0, RawHex: "0001617f81ffff7f", RawLen: 16000, LaneRef: mcs + 1, Pad: -1, TableSize: -1}}}
				p.Lanes = append(p.Lanes, l)
			default:
				l := Lane{Name: fmt.Sprintf("cont%d", rid), After: rid - 1, Offender: kind, Ops: []Op{{Kind: "raw", RawType: FContinuation, RawFlags: 0, RawLen: 16384, LaneRef: mcs + 1, Pad: -1, TableSize: -1}}}
				p.Lanes = append(p.Lanes, l)
			}
		case "continuation-long-field":
			// one header block whose last field never completes: a literal with a declared value length of 2^28 octets,
			// fed by CONTINUATION frames of 16 KiB each. Nothing is decoded, so MaxHeaderListSize never sees it.
			switch i {
			case 0:
				h := hdrs(rid, false)
				h.NoEndHdrs = true
				addReq(h)
			case 1:
				// 00 = literal without indexing, new name; 01 61 = name "a"; 7f 81 ff ff 7f = value length 127 + (2^28-127)
				l := Lane{Name: fmt.Sprintf("cont%d", rid), After: rid - 1, Offender: kind, Ops: []Op{{Kind: "raw", RawType: FContinuation, RawFlags: 0, RawHex: "0001617f81ffff7f", RawLen: 16000, LaneRef: 1, Pad: -1, TableSize: -1}}}
				p.Lanes = append(p.Lanes, l)
			default:
				l := Lane{Name: fmt.Sprintf("cont%d", rid), After: rid - 1, Offender: kind, Ops: []Op{{Kind: "raw", RawType: FContinuation, RawFlags: 0, RawLen: 16384, LaneRef: 1, Pad: -1, TableSize: -1}}}
				p.Lanes = append(p.Lanes, l)
			}
		case "over-sent-body":
			ops := []Op{hdrs(rid, false)}
			for k := 0; k < 4; k++ {
				ops = append(ops, Op{Kind: "data", Len: maxBody/2 + 1, Pad: -1, TableSize: -1, EndStream: k == 3})
			}
			addReq(ops...)
		case "mis-declared-body":
			// a declared length that says nothing about what follows (zero, or one that does not fit an int), then more
			// DATA than MaxRequestBodySize with END_STREAM withheld, so that the length is never compared with the body
			h := hdrs(rid, false)
			h.Fields = append(h.Fields, HF{"content-length", Pick(r, "0", "0", "9223372036854775808", "1")})
			ops := []Op{h}
			for k := 0; k < 6; k++ {
				ops = append(ops, Op{Kind: "data", Len: maxBody/2 + 1, Pad: -1, TableSize: -1})
			}
			addReq(ops...)
		case "over-declared-body":
			h := hdrs(rid, false)
			h.Fields = append(h.Fields, HF{"content-length", fmt.Sprint(maxBody * 3)})
			addReq(h, Op{Kind: "data", Len: 10, Pad: -1, TableSize: -1, EndStream: true})
		case "ping-flood":
			l := Lane{Name: fmt.Sprintf("ping%d", rid), After: rid - 1, Offender: kind, Ops: []Op{{Kind: "ping", Pad: -1, TableSize: -1}}}
			p.Lanes = append(p.Lanes, l)
		case "settings-flood":
			l := Lane{Name: fmt.Sprintf("set%d", rid), After: rid - 1, Offender: kind, Ops: []Op{{Kind: "settings", Pad: -1, TableSize: -1}}}
			p.Lanes = append(p.Lanes, l)
		}
	}
	for i := 0; i < n; i++ {
		k := kind
		if kind == "mixed" {
			k = Pick(r, "rapid-reset", "half-open", "over-sent-body", "over-declared-body", "mis-declared-body", "ping-flood")
		}
		one(k, i)
	}
	if kind == "ping-flood" || kind == "settings-flood" {
		// the peer does not read the replies
		p.Peer.LinkCap = 2048
		p.Faults = append(p.Faults, Fault{Kind: "stall-s2c", AfterOps: -1})
	}
	p.GateMode = "hold"
	p.Mask = []string{"atomic", "prelock", "net", "yield"}
	p.PoolPol = r.Intn(2)
	p.Strategy = genStrategy(r)
	p.Strategy.Stay = Pick(r, 0.8, 0.95)
	if kind == "timeout-refill" {
		T := Pick(r, 200*time.Millisecond, time.Second)
		p.Srv.ReadTimeout = T
		p.Strategy.TimeRace = Pick(r, 0.01, 0.03)
		p.Strategy.TimeSteps = []time.Duration{T + time.Millisecond, T / 2, T + time.Millisecond}
	}
	p.SelSeed = r.Uint64()
	p.MaxSteps = 400000
	return p
}

// c13Online: the number of running handlers never exceeds MaxConcurrentStreams; a handler never sees more than the limits.
func c13Online(w *SrvWorld) *Violation {
	kind := strings.TrimPrefix(w.plan.Trail, "c13:")
	if w.GaugeHWM > w.plan.Srv.MaxConcurrentStreams {
		return &Violation{Property: "C13", Rule: "handler-gauge", Sig: "handler-gauge/" + kind,
			Detail: fmt.Sprintf("%d handlers running at once with MaxConcurrentStreams=%d (%s)", w.GaugeHWM, w.plan.Srv.MaxConcurrentStreams, kind)}
	}
	for rid, s := range w.Snaps {
		if w.plan.Srv.MaxRequestBodySize > 0 && len(s.Body) > w.plan.Srv.MaxRequestBodySize {
			return &Violation{Property: "C13", Rule: "body-over-limit", Sig: "body-over-limit/" + kind,
				Detail: fmt.Sprintf("handler of request %d was given a body of %d bytes, MaxRequestBodySize=%d", rid, len(s.Body), w.plan.Srv.MaxRequestBodySize)}
		}
		if lim := w.plan.Srv.MaxHeaderListSize; lim > 0 {
			sz := 0
			for _, f := range s.Fields {
				if f.Name == "host" {
					continue // materialised from :authority by the server
				}
				sz += len(f.Name) + len(f.Value) + 32
			}
			if sz > lim+200 {
				return &Violation{Property: "C13", Rule: "headers-over-limit", Sig: "headers-over-limit/" + kind,
					Detail: fmt.Sprintf("handler of request %d was given a header list of %d bytes, MaxHeaderListSize=%d", rid, sz, lim)}
			}
		}
	}
	return nil
}

// c13AtQuiescence is evaluated when the whole flood has been sent and processed, handlers still held:
// what the connection keeps alive must be bounded by the limits, not by the number of frames.
func c13AtQuiescence(w *SrvWorld) *Violation {
	kind := strings.TrimPrefix(w.plan.Trail, "c13:")
	mcs := w.plan.Srv.MaxConcurrentStreams
	maxBody := w.plan.Srv.MaxRequestBodySize
	if maxBody <= 0 {
		maxBody = 4 << 20
	}
	hdr := w.plan.Srv.MaxHeaderListSize
	if hdr <= 0 {
		hdr = 1 << 20
	}
	stats := w.sim.R.Pools.Stats(true)
	w.PoolStats = stats
	for _, st := range stats {
		bound := -1
		switch {
		case strings.HasSuffix(st.Name, "http2.Stream"), strings.HasSuffix(st.Name, "fasthttp.RequestCtx"):
			bound = 2*mcs + 8 // open streams + streams whose handler still runs after a reset
		case strings.HasSuffix(st.Name, "http2.FrameHeader"):
			bound = 3*128 + 16 // the three queues of 128 + a few in hand
		}
		if bound >= 0 && st.Live > bound {
			return &Violation{Property: "C13", Rule: "live-objects", Sig: "live-objects/" + kind + "/" + shortType(st.Name),
				Detail: fmt.Sprintf("%d live %s objects after a flood of %d frames (%s) with MaxConcurrentStreams=%d: bound %d; the count follows the number of frames, not the limits",
					st.Live, st.Name, w.opsSent, kind, mcs, bound)}
		}
	}
	// a header block that stays open: what the peer has poured into it, encoded, against four times the limit for the
	// decoded list (Huffman expands by at most 8/5, an indexed field of one octet stands for more than 32) plus a frame's
	// worth of slack. Past that the block cannot be within MaxHeaderListSize whatever it holds, and going on taking it in
	// is buffering or processing by the frame count.
	if len(w.GoAways) == 0 && !w.PeerEOF && !w.Returned && w.blockOwner != nil {
		poured := 0
		for _, l := range w.lanes {
			for j, op := range l.lane.Ops {
				if j < l.next && op.Kind == "raw" && op.RawType == FContinuation {
					poured += len(op.RawHex)/2 + op.RawLen
				}
			}
		}
		if poured > 4*hdr+65536 {
			return &Violation{Property: "C13", Rule: "header-block-over-limit-accepted", Sig: "header-block-over-limit-accepted/" + kind,
				Detail: fmt.Sprintf("%d octets of CONTINUATION frames accepted into one open header block with MaxHeaderListSize=%d and neither GOAWAY nor a close (%s)", poured, hdr, kind)}
		}
	}
	if lim := w.plan.Srv.MaxRequestBodySize; lim > 0 && len(w.GoAways) == 0 {
		for _, l := range w.lanes {
			if l.id == 0 || !l.sentAll {
				continue
			}
			sent := 0
			for _, op := range l.lane.Ops {
				if op.Kind == "data" {
					sent += op.Len
				}
			}
			ps := w.Streams[l.id]
			refused := ps != nil && (len(ps.RST) > 0 || ps.EndStreams > 0)
			if sent > lim && !refused {
				return &Violation{Property: "C13", Rule: "body-over-limit-accepted", Sig: "body-over-limit-accepted/" + kind,
					Detail: fmt.Sprintf("stream %d: the peer has sent %d bytes of DATA, every frame delivered and processed, MaxRequestBodySize=%d, and the server has neither reset the stream nor ended the connection: it is buffering a body larger than the limit (%s)", l.id, sent, lim, kind)}
			}
		}
	}
	total := 0
	for _, st := range stats {
		total += st.RetainedBytes
	}
	limit := 2*mcs*(maxBody+hdr+65536) + 400*17000
	if total > limit {
		return &Violation{Property: "C13", Rule: "retained-bytes", Sig: "retained-bytes/" + kind,
			Detail: fmt.Sprintf("%d bytes retained in pooled objects after the flood (%s); bound from the limits %d", total, kind, limit)}
	}
	return nil
}

func shortType(n string) string {
	if i := strings.LastIndex(n, "."); i >= 0 {
		return n[i+1:]
	}
	return n
}

func c13Nontrivial(w *SrvWorld) bool {
	// the limit was reached: gauge = limit, or a refusal / reset / GOAWAY by the server was observed
	if w.GaugeHWM >= w.plan.Srv.MaxConcurrentStreams {
		return true
	}
	for _, ps := range w.Streams {
		if len(ps.RST) > 0 {
			return true
		}
	}
	return len(w.GoAways) > 0 || w.opsSent > 128
}
