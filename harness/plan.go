package harness

import "time"

// SrvCfg are the server-side configuration knobs of a run.
type SrvCfg struct {
	MaxConcurrentStreams int           `json:"max_streams"`
	MaxRequestBodySize   int           `json:"max_body"`
	MaxHeaderListSize    int           `json:"max_hdr_list"`
	ReadTimeout          time.Duration `json:"read_timeout"`
	IdleTimeout          time.Duration `json:"idle_timeout"`
	PingInterval         time.Duration `json:"ping_interval"` // <0 disabled
}

// PeerCfg is what the scripted client advertises in its first SETTINGS and how it behaves as a receiver.
type PeerCfg struct {
	InitialWindow   int64  `json:"initial_window"`    // -1: not sent (65535)
	MaxFrameSize    int64  `json:"max_frame_size"`    // -1: not sent (16384)
	HeaderTableSize int64  `json:"header_table_size"` // -1: not sent (4096)
	AutoWindow      bool   `json:"auto_window"`       // grant WINDOW_UPDATE for everything received, at once
	DrainGrants     bool   `json:"drain_grants"`      // in the drain phase, grant whatever window is needed
	ConnWindowBoost uint32 `json:"conn_window_boost"` // WINDOW_UPDATE(0) sent right after SETTINGS
	LinkCap         int    `json:"link_cap"`          // capacity of each direction in bytes (0 = unbounded)
}

// Resp is what the handler produces for one request.
type Resp struct {
	Status  int    `json:"status"`
	Fields  []HF   `json:"fields"`
	BodyLen int    `json:"body_len"`
	Mode    string `json:"mode"` // buffered | stream-declared | stream-unknown | stream-zero
	// ReadSizes are the sizes of successive Read results of a streamed body (cycled); 0 entries are skipped.
	ReadSizes []int `json:"read_sizes,omitempty"`
	// EOFWithData: the reader returns io.EOF together with the last bytes instead of a separate (0, EOF).
	EOFWithData bool `json:"eof_with_data,omitempty"`
	// ErrAt >= 0: the body reader fails after that many bytes.
	ErrAt int  `json:"err_at"`
	Panic bool `json:"panic,omitempty"`
	// Trailers (scripted responses only): a second header block, with END_STREAM, after the body.
	Trailers []HF `json:"trailers,omitempty"`
	// Interim (scripted responses only): fields of a 103 response sent before the final one.
	Interim []HF `json:"interim,omitempty"`
}

// Op is one step of a lane of the scripted peer.
type Op struct {
	Kind string `json:"kind"` // headers | data | trailers | rst | wupd | priority | raw | settings | ping | goaway | wait-resp | wait-handler
	// headers / trailers
	Fields    []HF  `json:"fields,omitempty"`
	Reps      []Rep `json:"reps,omitempty"`
	Splits    []int `json:"splits,omitempty"` // cut points of the encoded block, in permille of its length
	Pad       int   `json:"pad"`              // -1 none
	Prio      bool  `json:"prio,omitempty"`
	PrioDep   int   `json:"prio_dep,omitempty"` // 0: stream 0, -1: itself, k>0: absolute id
	EndStream bool  `json:"end_stream,omitempty"`
	NoEndHdrs bool  `json:"no_end_headers,omitempty"` // leave the block open (hostile)
	// data
	Len int `json:"len,omitempty"` // bytes taken from the lane's body
	// rst / goaway / wupd / settings / ping / raw
	Code     uint32      `json:"code,omitempty"`
	Incr     uint32      `json:"incr,omitempty"`
	OnConn   bool        `json:"on_conn,omitempty"` // wupd on stream 0
	Settings [][2]uint32 `json:"settings,omitempty"`
	RawType  uint8       `json:"raw_type,omitempty"`
	RawFlags uint8       `json:"raw_flags,omitempty"`
	RawLen   int         `json:"raw_len,omitempty"`
	RawHex   string      `json:"raw_hex,omitempty"`
	// StreamRef: which stream id the op is sent on. 0: the lane's own stream; >0: absolute id; -1: stream 0;
	// -2: the id a SkipID lane left unused (implicitly closed once that lane's stream is open)
	StreamRef int `json:"stream_ref,omitempty"`
	// LaneRef > 0: the op is sent on the stream of lane LaneRef-1 (enabled once that lane has a stream id)
	LaneRef int `json:"lane_ref,omitempty"`
	// TableSize >= 0: emit a dynamic table size update at the start of this block
	TableSize int `json:"table_size"`
	// JunkFlags (walks): flag bits with no meaning for the frame type, which the receiver must ignore (RFC 7540 4.1).
	JunkFlags uint8 `json:"junk_flags,omitempty"`
}

// Lane is an ordered sequence of ops, normally one request.
type Lane struct {
	Name string `json:"name"`
	Ops  []Op   `json:"ops"`
	// request as the peer means it (oracle side); nil for lanes that are not well-formed requests
	Req  *Req  `json:"req,omitempty"`
	Resp *Resp `json:"resp,omitempty"`
	// Offender marks a lane whose stream is expected to fail (C09) — excluded from the exactness oracle.
	Offender string `json:"offender,omitempty"`
	// OpensStream: the lane's first op opens a new stream (gets the next odd id when sent)
	OpensStream bool `json:"opens_stream"`
	// After: this lane may start only after lane After has completed all its ops (and, if AfterResp, its response)
	After     int  `json:"after"` // -1 none
	AfterResp bool `json:"after_resp,omitempty"`
	// WaitEnd (client-side runs): the scripted response starts only after the request's END_STREAM arrived
	WaitEnd bool `json:"wait_end,omitempty"`
	// SkipID: the lane leaves one odd stream id unused below its own (ops with StreamRef -2 refer to that id)
	SkipID bool `json:"skip_id,omitempty"`
	// AfterCancel (client-side runs): the scripted response starts only once the caller's cancel has been issued
	AfterCancel bool `json:"after_cancel,omitempty"`
}

// Req is a well-formed request as the peer means it.
type Req struct {
	Method    string `json:"method"`
	Scheme    string `json:"scheme"`
	Path      string `json:"path"`
	Authority string `json:"authority"`
	Fields    []HF   `json:"fields"`
	Trailers  []HF   `json:"trailers,omitempty"`
	Body      []byte `json:"body,omitempty"`
}

// Fault is an injected transport or environment fault.
type Fault struct {
	Kind string `json:"kind"` // cut-eof | cut-rst | werr | stall-s2c | unstall-s2c | eof | close-peer | deadline-err
	At   int64  `json:"at"`   // byte offset for cut/werr; ignored otherwise
	// AfterOps: the fault action becomes enabled once that many peer ops have been sent (-1: from the start)
	AfterOps int `json:"after_ops"`
	// AfterReqs (client-side runs): ... and once the scripted server has seen that many requests
	AfterReqs int `json:"after_reqs,omitempty"`
}

// SrvPlan is the complete, explicit workload of one server-side run. It is what a replay file stores.
type SrvPlan struct {
	Family string  `json:"family"`
	Srv    SrvCfg  `json:"srv"`
	Peer   PeerCfg `json:"peer"`
	Lanes  []Lane  `json:"lanes"`
	Faults []Fault `json:"faults,omitempty"`
	// GateMode: "sched" = the scheduler opens handler gates as environment actions; "open" = handlers never wait
	GateMode string `json:"gate_mode"`
	// Mask switches optional park point kinds off (swarm): names of simrt kinds
	Mask     []string `json:"mask,omitempty"`
	PoolPol  int      `json:"pool_policy"`
	Strategy Strategy `json:"strategy"`
	SelSeed  uint64   `json:"sel_seed"`
	// Frag: offer partial deliveries of the client→server byte stream
	Frag bool `json:"frag"`
	// DelayS2C: offer holding back server→peer bytes (frames in flight)
	DelayS2C bool `json:"delay_s2c"`
	MaxSteps int  `json:"max_steps"`
	// Trail: what the peer does after a connection-scoped offence (C10): keep-sending | silent | stall | disconnect | idle
	Trail string `json:"trail,omitempty"`
}
