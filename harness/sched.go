package harness

import (
	"fmt"
	"hash/fnv"
	"os"
	"sort"
	"strconv"
	"strings"
	"sync/atomic"
	"testing/synctest"
	"time"
	_ "unsafe"

	"simrt"
)

var dumpAt, _ = strconv.Atoi(os.Getenv("VERIF_DUMP_AT"))
var wantTrace = os.Getenv("VERIF_TRACE") != ""

//go:linkname simSelectSeed runtime.simSelectSeed
func simSelectSeed(s uint64)

// Action is something the scheduler can choose to do at a quiescent point.
type Action struct {
	Name   string
	Run    func()
	Weight int  // search-mode weight (0 = default 10)
	Env    bool // environment action (network, peer, gate, fault) rather than a goroutine release
}

// World is the environment of a run: it offers environment actions and online invariants.
type World interface {
	// EnvActions returns the currently enabled environment actions in a deterministic order,
	// most natural first (index 0 is what a replay past the end of its tape does).
	EnvActions() []Action
	// Check is the online oracle, evaluated at every quiescent point.
	Check() *Violation
}

// Violation is a property violation found by an oracle.
type Violation struct {
	Property string
	Rule     string // oracle rule, stable identifier
	Sig      string // signature = rule + discriminators; what known-findings are keyed by
	Detail   string
}

func (v *Violation) String() string {
	return fmt.Sprintf("%s %s: %s", v.Property, v.Sig, v.Detail)
}

// Strategy of the search policy.
type Strategy struct {
	Stay      float64 // probability of letting the current goroutine continue when it can
	EnvBias   float64 // probability of preferring an environment action when both kinds are enabled
	TimeRace  float64 // probability of advancing the clock although other work exists
	TimeSteps []time.Duration
	// Starve: a goroutine parked at a site whose name contains this string (or one of several, separated by '|') is only run when nothing else (goroutine or
	// environment action) is enabled: a loop that has fallen behind, as under a burst or a slow dependency
	Starve string `json:",omitempty"`
}

// Sim drives one run.
type Sim struct {
	R     *simrt.Run
	Tape  *Tape
	RNG   *RNG // search policy randomness (separate stream from workload generation)
	Strat Strategy

	parked      []simrt.ParkReq
	last        *simrt.G
	Start       time.Time
	TimerStarts map[string]time.Duration

	Steps     int
	MaxSteps  int
	Switches  int
	TimeJumps int
	hash      uint64
	ilHash    uint64 // interleaving hash: context switches + env actions only
	Trace     []string
	TraceCap  int
	Pairs     map[string]struct{}
	lastSite  string
	LastAt    map[string]string // goroutine name → site it was last released from
	Viol      *Violation
	SelSeed   uint64
	Stuck     string // non-empty: the run could not be driven (harness trouble), not a verdict
	Heartbeat *int64
}

func NewSim(tape *Tape, rng *RNG) *Sim {
	r := simrt.Begin()
	r.RegisterSelf("sched")
	simrt.Quiet() // the scheduler's own channel traffic must not order the system's goroutines for the race detector
	return &Sim{R: r, Tape: tape, RNG: rng, Start: time.Now(), MaxSteps: 200000, TraceCap: 6000, Heartbeat: &heartbeat,
		Pairs: map[string]struct{}{}, LastAt: map[string]string{}, hash: 1469598103934665603, ilHash: 1469598103934665603,
		Strat: Strategy{Stay: 0.7, EnvBias: 0.3}}
}

func (s *Sim) Now() time.Duration { return time.Since(s.Start) }

func (s *Sim) note(name string, il bool) {
	h := fnv.New64a()
	h.Write([]byte(name))
	x := h.Sum64()
	s.hash = (s.hash ^ x) * 1099511628211
	if il {
		s.ilHash = (s.ilHash ^ x) * 1099511628211
	}
	if len(s.Trace) < s.TraceCap {
		s.Trace = append(s.Trace, name)
	}
}

// Logf adds a line to the decoded trace without influencing any hash or decision.
func (s *Sim) Logf(format string, a ...any) {
	if simrt.RaceEnabled && !wantTrace {
		return // fmt's pooled printers are a source of noise for the race detector; traces of race runs are terse
	}
	if len(s.Trace) < s.TraceCap {
		s.Trace = append(s.Trace, "    # "+fmt.Sprintf(format, a...))
	}
}

// Obs folds an observation of the system's behaviour (a decoded frame, a handler event) into the
// trace hash, so that the determinism self-test compares behaviour and not only schedules.
func (s *Sim) Obs(what string) {
	h := fnv.New64a()
	h.Write([]byte(what))
	s.hash = (s.hash ^ h.Sum64()) * 1099511628211
}

func (s *Sim) TraceHash() uint64        { return s.hash }
func (s *Sim) InterleavingHash() uint64 { return s.ilHash }

func (s *Sim) collect() {
	for {
		select {
		case p := <-s.R.Req:
			s.parked = append(s.parked, p)
			s.noteStart(p)
			s.R.Hit(p.Site)
		default:
			sort.SliceStable(s.parked, func(i, j int) bool { return s.parked[i].G.Name < s.parked[j].G.Name })
			return
		}
	}
}

// Settle waits until every goroutine of the bubble is parked or durably blocked.
func (s *Sim) Settle() {
	synctest.Wait()
	s.collect()
	if s.Heartbeat != nil {
		atomic.AddInt64(s.Heartbeat, 1)
	}
}

// Parked returns the names of goroutines that are parked and could run.
func (s *Sim) Parked() []string {
	var out []string
	for _, p := range s.parked {
		out = append(out, p.G.Name+"@"+p.Site+"["+p.Kind.String()+"]")
	}
	return out
}

func (s *Sim) enabledG() []int {
	var idx []int
	for i, p := range s.parked {
		if p.Kind == simrt.KLock && !simrt.TryLockable(p.Obj) {
			continue
		}
		idx = append(idx, i)
	}
	return idx
}

// Step performs one scheduling decision. It returns false when nothing is enabled
// (the system is quiescent as far as goroutines and environment are concerned).
func (s *Sim) Step(w World, allowTime bool) bool {
	s.Settle()
	if s.Viol == nil {
		if v := w.Check(); v != nil {
			s.Viol = v
			return false
		}
	}
	gi := s.enabledG()
	env := w.EnvActions()
	if s.Strat.Starve != "" {
		var keep []int
		alts := strings.Split(s.Strat.Starve, "|")
		for _, i := range gi {
			starved := false
			for _, a := range alts {
				starved = starved || strings.Contains(s.parked[i].Site, a)
			}
			if !starved {
				keep = append(keep, i)
			}
		}
		if len(keep) > 0 || len(env) > 0 {
			gi = keep
		}
	}
	type cand struct {
		name string
		g    int // index into parked, or -1
		e    int // index into env, or -1
		tj   bool
		wt   int
	}
	var cands []cand
	// current goroutine first, then the others by name, then environment, then time
	for _, i := range gi {
		if s.parked[i].G == s.last {
			cands = append(cands, cand{g: i, e: -1, wt: 10})
		}
	}
	for _, i := range gi {
		if s.parked[i].G != s.last {
			cands = append(cands, cand{g: i, e: -1, wt: 10})
		}
	}
	for i, a := range env {
		wt := a.Weight
		if wt == 0 {
			wt = 10
		}
		cands = append(cands, cand{g: -1, e: i, wt: wt})
	}
	nReal := len(cands)
	if allowTime && nReal > 0 && s.Strat.TimeRace > 0 {
		cands = append(cands, cand{g: -1, e: -1, tj: true, wt: 1})
	}
	if nReal == 0 {
		return false
	}
	var k int
	if s.Tape.Replay {
		k = s.Tape.Next(len(cands))
	} else {
		k = s.policy(len(gi), len(env), len(cands) > nReal, func(i int) int { return cands[i].wt }, len(cands) > 0 && cands[0].g >= 0 && s.parked[cands[0].g].G == s.last)
		s.Tape.Record(k)
	}
	c := cands[k]
	s.Steps++
	if dumpAt > 0 && s.Steps == dumpAt {
		buf := make([]byte, 1<<20)
		n := runtimeStack(buf)
		fmt.Fprintf(os.Stderr, "==== stacks at step %d, fake time %v ====\n%s\n", s.Steps, s.Now(), buf[:n])
	}
	// reseed the select shuffle so that arm choice is a function of the tape position only
	simSelectSeed(Mix(s.SelSeed, uint64(s.Steps)) | 1)
	switch {
	case c.tj:
		d := s.Strat.TimeSteps[s.Steps%len(s.Strat.TimeSteps)]
		s.note(fmt.Sprintf("time+%v", d), true)
		s.advance(d)
	case c.g >= 0:
		p := s.parked[c.g]
		s.parked = append(s.parked[:c.g:c.g], s.parked[c.g+1:]...)
		sw := p.G != s.last
		if sw {
			s.Switches++
			if len(s.Pairs) < 100000 {
				s.Pairs[s.lastSite+">"+p.Site] = struct{}{}
			}
		}
		s.note("run "+p.G.Name+"@"+p.Site, sw)
		s.last = p.G
		s.lastSite = p.Site
		s.LastAt[p.G.Name] = p.Site
		// Running code takes time. With a clock that stands still while goroutines run, a loop that waits for an
		// instant to pass (`if !now.After(deadline) { timer.Reset(Until(deadline)) }`) never ends when it is
		// entered exactly at the deadline - which happens when two timers are due within the scheduler's own
		// microsecond of lateness. One nanosecond per step is enough to rule that out.
		time.Sleep(time.Nanosecond)
		s.R.Release(p)
	default:
		a := env[c.e]
		s.note("env "+a.Name, true)
		a.Run()
	}
	return true
}

func (s *Sim) policy(ng, ne int, hasTime bool, wt func(int) int, curFirst bool) int {
	n := ng + ne
	if hasTime && s.RNG.Bool(s.Strat.TimeRace) {
		return n
	}
	if curFirst && s.RNG.Bool(s.Strat.Stay) {
		return 0
	}
	if ng > 0 && ne > 0 {
		if s.RNG.Bool(s.Strat.EnvBias) {
			return ng + s.weighted(ng, ne, wt)
		}
		return s.RNG.Intn(ng)
	}
	if ng > 0 {
		return s.RNG.Intn(ng)
	}
	return ng + s.weighted(ng, ne, wt)
}

func (s *Sim) weighted(off, n int, wt func(int) int) int {
	tot := 0
	for i := 0; i < n; i++ {
		tot += wt(off + i)
	}
	x := s.RNG.Intn(tot)
	for i := 0; i < n; i++ {
		x -= wt(off + i)
		if x < 0 {
			return i
		}
	}
	return n - 1
}

// advance lets the fake clock move by at most d, stopping at the first timer that wakes somebody.
// It reports whether any goroutine parked (i.e. a timer of the system fired).
func (s *Sim) advance(d time.Duration) bool {
	s.TimeJumps++
	t := time.NewTimer(d)
	select {
	case p := <-s.R.Req:
		t.Stop()
		s.parked = append(s.parked, p)
		s.noteStart(p)
		s.R.Hit(p.Site)
		// A real timer never fires early and practically never exactly on time. The fake clock stops
		// exactly at the deadline, which turns code like `if now.After(deadline)` + `Reset(Until(deadline))`
		// into an endless loop that no real clock would produce: let a microsecond pass before anybody runs.
		time.Sleep(time.Microsecond)
		return true
	case <-t.C:
		// a timer of the system may be due at this very instant too: same lateness
		time.Sleep(time.Microsecond)
		return false
	}
}

// RunPhase steps until nothing but the clock can make progress, then lets the clock advance in
// jumps to the next timer until `horizon` of fake time has passed in total or maxSteps are used up.
// It returns true if the system is quiescent at the end.
func (s *Sim) RunPhase(w World, horizon time.Duration, allowTimeRace bool) bool {
	deadline := time.Now().Add(horizon)
	for s.Steps < s.MaxSteps && s.Viol == nil {
		if s.Step(w, allowTimeRace) {
			continue
		}
		if s.Viol != nil {
			return false
		}
		// nothing enabled: let the clock run to the next timer, if the phase allows
		rem := time.Until(deadline)
		if rem <= 0 {
			return true
		}
		s.note("time→next", false)
		if !s.advance(rem) {
			s.Settle()
			if len(s.enabledG()) == 0 && len(w.EnvActions()) == 0 {
				return true
			}
		}
	}
	return s.Viol == nil && s.Steps < s.MaxSteps
}

// BlockedSummary describes goroutines of the run that have not exited, for "who is left" oracles.
func (s *Sim) Alive(sysOnly bool) []string {
	var out []string
	for _, g := range s.R.Goroutines() {
		if g.Exited || (sysOnly && !g.Sys) {
			continue
		}
		out = append(out, g.Name)
	}
	sort.Strings(out)
	return out
}

// ParkedOn returns where a live goroutine is parked, if it is parked at a simrt point.
func (s *Sim) ParkedOn(name string) string {
	for _, p := range s.parked {
		if p.G.Name == name {
			return p.Site + "[" + p.Kind.String() + "]"
		}
	}
	for _, g := range s.R.Goroutines() {
		if g.Name == name && g.At != "" {
			return "blocked at " + g.At
		}
	}
	return "blocked after " + s.LastAt[name]
}

// siteFunc reduces a site id "file:line:col(func)" to "file(func)", which survives unrelated edits.
func siteFunc(site string) string {
	i := strings.Index(site, ":")
	j := strings.Index(site, "(")
	if i < 0 || j < 0 {
		return site
	}
	return site[:i] + site[j:]
}

func shortName(n string) string {
	if i := strings.LastIndex(n, "/"); i >= 0 {
		return n[i+1:]
	}
	return n
}

// noteStart remembers the fake time at which each timer callback of the system began to run (its first park point):
// that is when the timer fired, whatever happened to the clock before the callback got anything done.
func (s *Sim) noteStart(p simrt.ParkReq) {
	if p.Kind == simrt.KStart && strings.HasPrefix(p.G.Name, "timer:") {
		if s.TimerStarts == nil {
			s.TimerStarts = map[string]time.Duration{}
		}
		if _, ok := s.TimerStarts[p.G.Name]; !ok {
			s.TimerStarts[p.G.Name] = s.Now()
		}
	}
}
