package harness

import (
	"fmt"
	"os"
	"regexp"
	"sort"
	"strings"
)

// ---- C19: race reports and pool ownership faults found while re-running the other families ----

var raceLogOff int64

var accessRe = regexp.MustCompile(`(?m)^(Write|Read|Previous write|Previous read|Atomic write|Previous atomic write|Atomic read|Previous atomic read) at 0x[0-9a-f]+ by (goroutine \d+|main goroutine):\n((?:  \S.*\n      \S.*\n)+)`)
var frameRe = regexp.MustCompile(`(?m)^  (\S+?)(?:\(\))?\n      (\S+?):(\d+)`)

type raceAccess struct {
	kind   string
	owner  string // first frame that belongs to the repo, to application code of the harness, or to the harness itself
	class  string // repo | app | harness | other
	frames []string
}

func classify(fn string) string {
	switch {
	case strings.HasPrefix(fn, "github.com/dgrr/http2.") || strings.HasPrefix(fn, "github.com/dgrr/http2/"):
		return "repo"
	case strings.HasPrefix(fn, "harness.app"), strings.HasPrefix(fn, "harness.(*planReader)"), strings.HasPrefix(fn, "harness.(*SrvWorld).handler"),
		strings.HasPrefix(fn, "harness.(*CliWorld).startCaller.func"), strings.HasPrefix(fn, "harness.RespBody"), strings.HasPrefix(fn, "harness.genBody"):
		return "app"
	case strings.HasPrefix(fn, "harness."), strings.HasPrefix(fn, "simrt."):
		return "harness"
	}
	return "other"
}

func parseRaceReports(txt string) [][2]raceAccess {
	var out [][2]raceAccess
	for _, blk := range strings.Split(txt, "WARNING: DATA RACE")[1:] {
		ms := accessRe.FindAllStringSubmatch(blk, -1)
		if len(ms) < 2 {
			continue
		}
		var accs [2]raceAccess
		for i := 0; i < 2; i++ {
			a := raceAccess{kind: ms[i][1], class: "other"}
			for _, fm := range frameRe.FindAllStringSubmatch(ms[i][3], -1) {
				fn := fm[1]
				a.frames = append(a.frames, fn)
				if strings.HasPrefix(fn, "simrt.Atom") {
					// the wrapper the instrumenter puts around the repository's atomic operations: the access is the
					// repository's (a plain access on one side and an atomic one on the other is a race like any other)
					continue
				}
				if a.owner == "" {
					if c := classify(fn); c != "other" {
						a.owner, a.class = fn, c
					}
				}
			}
			accs[i] = a
		}
		out = append(out, accs)
	}
	return out
}

func shortFn(fn string) string {
	fn = strings.TrimPrefix(fn, "github.com/dgrr/http2.")
	fn = strings.TrimPrefix(fn, "harness.")
	return fn
}

// newRaceViolations reads what the race detector appended to its log since the last call and keeps the reports in
// which both accesses are made by the repository's code (directly or inside fasthttp/bufio called from it) or one by
// the repository and one by the harness acting as the application within fasthttp's contract.
func newRaceViolations() []*Violation {
	base := os.Getenv("VERIF_RACE_LOG")
	if base == "" {
		return nil
	}
	path := fmt.Sprintf("%s.%d", base, os.Getpid())
	f, err := os.Open(path)
	if err != nil {
		return nil
	}
	defer f.Close()
	st, _ := f.Stat()
	if st.Size() <= raceLogOff {
		return nil
	}
	buf := make([]byte, st.Size()-raceLogOff)
	f.ReadAt(buf, raceLogOff)
	raceLogOff = st.Size()
	var out []*Violation
	seen := map[string]bool{}
	for _, r := range parseRaceReports(string(buf)) {
		a, b := r[0], r[1]
		if a.class == "harness" || b.class == "harness" || a.class == "other" || b.class == "other" {
			continue
		}
		if onScheduler(a) || onScheduler(b) {
			continue // an access the scheduler goroutine made while inspecting results (e.g. err.Error())
		}
		if fmtInternal(a) && fmtInternal(b) {
			continue // fmt's pooled printer state: ordered by fmt's own sync.Pool, which the quiet scheduler hides
		}
		if a.class != "repo" && b.class != "repo" {
			continue
		}
		fns := []string{shortFn(a.owner), shortFn(b.owner)}
		sort.Strings(fns)
		sig := "race/" + fns[0] + "<->" + fns[1]
		if seen[sig] {
			continue
		}
		seen[sig] = true
		out = append(out, &Violation{Property: "C19", Rule: "data-race", Sig: sig,
			Detail: fmt.Sprintf("data race: %s by %s [%s] vs %s by %s [%s]", a.kind, shortFn(a.owner), strings.Join(first(a.frames, 4), " < "), b.kind, shortFn(b.owner), strings.Join(first(b.frames, 4), " < "))})
	}
	return out
}

func first(xs []string, n int) []string {
	if len(xs) > n {
		return xs[:n]
	}
	return xs
}

// poolViolations turns the sim-pool tracker's findings of a run into C19 violations.
func poolViolations(res *RunResult) []*Violation {
	var out []*Violation
	seen := map[string]bool{}
	for _, pv := range res.PoolViols {
		sig := "pool-" + pv.Kind + "/" + shortType(pv.Pool) + "/" + siteFunc(pv.Site)
		if seen[sig] {
			continue
		}
		seen[sig] = true
		out = append(out, &Violation{Property: "C19", Rule: "pool-" + pv.Kind, Sig: sig,
			Detail: fmt.Sprintf("%s: %s at %s by %s (previous release at %s) %s", pv.Kind, pv.Pool, pv.Site, shortName(pv.G), pv.PrevSite, pv.Detail)})
	}
	return out
}

// c19Families are the workload families C19 re-runs (their own verdicts are ignored here).
var c19Sources = []struct {
	prop, name string
	weight     int
}{
	{"C01", "c01", 3}, {"C02", "c02", 3}, {"C07", "c07", 2}, {"C09", "c09", 2}, {"C09", "c09-all", 1}, {"C10", "c10", 2}, {"C10", "c10-idle", 1},
	{"C12", "c12", 3}, {"C17", "c17", 3}, {"C18", "c18-server", 2}, {"C18", "c18-server-all", 1}, {"C18", "c18-client", 1}, {"C06", "c06", 2},
	// the Client level (RoundTrip, connection list, per-request timers) and the timer-driven server paths
	{"C11", "c11", 1}, {"C11", "c11-timed", 1}, {"C09", "c09-timeout", 1}, {"C17", "c17-idle-burst", 1},
}

func onScheduler(a raceAccess) bool {
	for _, f := range a.frames {
		if strings.HasPrefix(f, "harness.(*Sim).") {
			return true
		}
	}
	return false
}

func fmtInternal(a raceAccess) bool {
	return len(a.frames) > 0 && (strings.HasPrefix(a.frames[0], "fmt.(*fmt).") || strings.HasPrefix(a.frames[0], "fmt.(*pp).") || strings.HasPrefix(a.frames[0], "fmt.newPrinter") || strings.HasPrefix(a.frames[0], "fmt.(*buffer)."))
}
