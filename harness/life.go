package harness

import (
	"fmt"
	"sort"
	"strings"
	"time"
)

// LifeReport is what the teardown phases observed (C10, C17).
type LifeReport struct {
	ReturnedAfterPeerGone bool     // ServeConn had returned at quiescence 5 s after the peer went away
	ReturnedAfterHour     bool     // ... after one more hour of fake time
	LeftAfterHour         []string // system goroutines alive then, other than handlers whose gate is closed: "name @ where"
	HeldHandlers          int
	LeftAtEnd             []string // system goroutines alive after every gate was opened
	// C10: the peer stays connected after the drain; has ServeConn returned an hour later?
	StayedChecked          bool
	ReturnedWhilePeerStays bool
	LeftWhilePeerStays     []string
}

// RunSrvLife: workload with faults, drain, peer goes away, +1 h, open held gates. The oracle sees every stage.
func RunSrvLife(plan *SrvPlan, tape *Tape, searchSeed uint64, prop string, online func(*SrvWorld) *Violation,
	final func(*SrvWorld, *LifeReport) *Violation, post func(*SrvWorld, *RunResult)) *RunResult {
	res := &RunResult{Property: prop, Family: plan.Family}
	sim := NewSim(tape, NewRNG(searchSeed))
	w := NewSrvWorld(sim, plan)
	w.online = online
	rep := &LifeReport{}
	ok := func() bool { return sim.Viol == nil && sim.Steps < sim.MaxSteps }
	sim.RunPhase(w, 0, plan.Strategy.TimeRace > 0)
	if ok() {
		w.phase = 1
		sim.RunPhase(w, 0, false)
	}
	if ok() && plan.Trail != "" && plan.Trail != "disconnect" && !w.peerGone {
		// the peer stays connected (sending, silent or not reading): the connection handler must end by itself
		sim.RunPhase(w, time.Hour, false)
		w.Check()
		rep.StayedChecked = true
		rep.ReturnedWhilePeerStays = w.Returned
		if !w.Returned {
			for _, n := range sim.Alive(false) {
				rep.LeftWhilePeerStays = append(rep.LeftWhilePeerStays, shortName(n)+" @ "+sim.ParkedOn(n))
			}
		}
	}
	if ok() {
		w.phase = 2
		w.peerReceive()
		if !w.peerGone {
			w.PeerClose()
		}
		sim.RunPhase(w, 5*time.Second, false)
		w.Check()
		rep.ReturnedAfterPeerGone = w.Returned
	}
	if ok() {
		w.phase = 3
		sim.RunPhase(w, time.Hour, false)
		w.Check()
		rep.ReturnedAfterHour = w.Returned
		held := map[string]bool{}
		for _, g := range w.gates {
			if !g.open {
				held[g.gor] = true
				rep.HeldHandlers++
			}
		}
		for _, n := range sim.Alive(false) {
			if !held[n] {
				rep.LeftAfterHour = append(rep.LeftAfterHour, shortName(n)+" @ "+sim.ParkedOn(n))
			}
		}
	}
	if ok() {
		w.phase = 4
		sim.RunPhase(w, time.Minute, false)
		w.Check()
		for _, n := range sim.Alive(false) {
			rep.LeftAtEnd = append(rep.LeftAtEnd, shortName(n)+" @ "+sim.ParkedOn(n))
		}
	}
	if ok() && final != nil {
		w.peerReceive()
		sim.R.Pools.CheckFree()
		if v := final(w, rep); v != nil {
			sim.Viol = v
		}
	}
	if post != nil {
		post(w, res)
	}
	res.Probes = w.Probes
	res.Extra = w.ExtraViol
	res.PoolViol = len(sim.R.Pools.Viol)
	res.Summary = w.Summary() + fmt.Sprintf(" life=%+v", *rep)
	res.Leaked = rep.LeftAtEnd
	sim.finish(res)
	return res
}

func blockedSig(left []string) string {
	// "name @ site": keep the distinct file(func) parts
	m := map[string]bool{}
	for _, l := range left {
		if i := strings.Index(l, " @ "); i >= 0 {
			w := l[i+3:]
			w = strings.TrimPrefix(w, "blocked after ")
			w = strings.TrimPrefix(w, "blocked at ")
			if j := strings.Index(w, "["); j >= 0 {
				w = w[:j]
			}
			m[siteFunc(w)] = true
		}
	}
	var out []string
	for k := range m {
		out = append(out, k)
	}
	sort.Strings(out)
	return strings.Join(out, "+")
}

// ---------- C17 ----------

// GenC17: well-formed (or mutated) client traffic, cut / broken / stalled at a seeded point, handlers possibly held.
func GenC17(r *RNG) *SrvPlan {
	p := GenC01(r)
	p.Family = "c17"
	p.Peer.LinkCap = Pick(r, 0, 4096, 65536)
	p.GateMode = Pick(r, "sched", "open", "hold", "hold")
	for i := range p.Lanes {
		// C17 does not judge responses: avoid nothing, vary everything
		if p.Lanes[i].Resp != nil && r.Intn(6) == 0 {
			p.Lanes[i].Resp.ErrAt = r.Intn(p.Lanes[i].Resp.BodyLen + 1)
		}
	}
	nops := 0
	for _, l := range p.Lanes {
		nops += len(l.Ops)
	}
	after := func() int { return Pick(r, -1, r.Intn(nops+1)) }
	switch r.Intn(8) {
	case 0, 1: // clean cut at a byte
		p.Faults = append(p.Faults, Fault{Kind: "cut-eof", At: int64(r.Intn(600)), AfterOps: after()})
	case 2: // reset
		p.Faults = append(p.Faults, Fault{Kind: "cut-rst", At: int64(r.Intn(600)), AfterOps: after()})
	case 3: // server-side write error
		p.Faults = append(p.Faults, Fault{Kind: "werr", At: int64(r.Intn(400)), AfterOps: after()})
	case 4: // peer stops reading (and never resumes), then goes away
		p.Peer.LinkCap = Pick(r, 1024, 4096)
		p.Faults = append(p.Faults, Fault{Kind: "stall-s2c", AfterOps: after()})
	case 5: // bit flips in the client's stream
		for k := 0; k < 1+r.Intn(3); k++ {
			p.Faults = append(p.Faults, Fault{Kind: "flip", At: int64(r.Intn(300)), AfterOps: after()})
		}
	case 6: // disconnect while handlers run
		p.GateMode = "hold"
		p.Faults = append(p.Faults, Fault{Kind: "close-peer", AfterOps: r.Intn(nops + 1)})
	case 7: // nothing: the peer just leaves at the end
	}
	// structure-aware mutations of the frame sequence
	if r.Intn(3) == 0 {
		mutatePlan(r, p)
	}
	// bursts longer than the channel capacities
	if r.Intn(6) == 0 {
		burst := Lane{Name: "burst", After: -1}
		n := 130 + r.Intn(200)
		kind := Pick(r, "ping", "wupd", "settings", "priority")
		for i := 0; i < n; i++ {
			switch kind {
			case "ping":
				burst.Ops = append(burst.Ops, Op{Kind: "ping", Pad: -1, TableSize: -1})
			case "wupd":
				burst.Ops = append(burst.Ops, Op{Kind: "wupd", OnConn: true, Incr: 1, Pad: -1, TableSize: -1})
			case "settings":
				burst.Ops = append(burst.Ops, Op{Kind: "settings", Pad: -1, TableSize: -1})
			case "priority":
				burst.Ops = append(burst.Ops, Op{Kind: "priority", StreamRef: 1 + 2*r.Intn(4), Pad: -1, TableSize: -1})
			}
		}
		p.Lanes = append(p.Lanes, burst)
		if r.Intn(2) == 0 {
			p.Peer.LinkCap = 2048
			p.Faults = append(p.Faults, Fault{Kind: "stall-s2c", AfterOps: -1})
		}
	}
	p.Strategy.TimeRace = Pick(r, 0.0, 0.0, 0.02)
	p.Srv.PingInterval = Pick(r, time.Duration(-1), -1, 10*time.Second)
	p.Srv.IdleTimeout = Pick(r, time.Duration(0), 0, 30*time.Second)
	p.Srv.ReadTimeout = Pick(r, time.Duration(0), 0, 5*time.Second)
	return p
}

// GenC17IdleBurst: a burst of frames that go through the reader queue (longer than its 128 slots) while the idle timer
// is about to fire: the stream loop may end with the queue full and the read loop in the middle of handing a frame
// over. Then the peer leaves.
func GenC17IdleBurst(r *RNG) *SrvPlan {
	p := GenC01(r)
	p.Family = "c17-idle-burst"
	p.GateMode = Pick(r, "open", "hold", "sched")
	T := Pick(r, time.Second, 5*time.Second)
	p.Srv.IdleTimeout = T
	p.Srv.PingInterval = -1
	burst := Lane{Name: "burst", After: Pick(r, -1, -1, 0)}
	n := 140 + r.Intn(260)
	kind := Pick(r, "wupd", "settings", "wupd-stream", "mixed")
	for i := 0; i < n; i++ {
		k := kind
		if kind == "mixed" {
			k = Pick(r, "wupd", "settings", "wupd-stream")
		}
		switch k {
		case "wupd":
			burst.Ops = append(burst.Ops, Op{Kind: "wupd", OnConn: true, Incr: 1, Pad: -1, TableSize: -1})
		case "settings":
			burst.Ops = append(burst.Ops, Op{Kind: "settings", Pad: -1, TableSize: -1})
		case "wupd-stream":
			burst.Ops = append(burst.Ops, Op{Kind: "wupd", LaneRef: 1, Incr: 1, Pad: -1, TableSize: -1})
		}
	}
	p.Lanes = append(p.Lanes, burst)
	if r.Intn(3) == 0 {
		// the peer does not read either: the stream loop falls behind on its own
		p.Peer.LinkCap = 2048
		p.Faults = append(p.Faults, Fault{Kind: "stall-s2c", AfterOps: -1})
	}
	p.Strategy.Stay = Pick(r, 0.8, 0.95, 0.98)
	if r.Intn(2) == 0 {
		p.Strategy.Starve = "(serverConn.handleStreams)" // the stream loop only gets to run when everybody else is waiting
	}
	p.Strategy.TimeRace = Pick(r, 0.01, 0.05, 0.2)
	p.Strategy.TimeSteps = []time.Duration{T / 2, T, T + time.Millisecond, time.Millisecond}
	return p
}

// GenC17ManyHandlers: more handlers in flight than any internal queue has slots (128), all of them still running when
// the peer goes away (cleanly, with a reset, or by no longer reading), and returning only after the connection's own
// goroutines have gone.
func GenC17ManyHandlers(r *RNG) *SrvPlan {
	p := &SrvPlan{Family: "c17-many-handlers"}
	p.Srv = SrvCfg{MaxConcurrentStreams: 1024, PingInterval: -1, MaxRequestBodySize: 1 << 20}
	p.Peer = PeerCfg{InitialWindow: 1 << 20, MaxFrameSize: -1, HeaderTableSize: -1, AutoWindow: true, ConnWindowBoost: 1 << 24, LinkCap: Pick(r, 0, 0, 4096)}
	n := 130 + r.Intn(120)
	for i := 0; i < n; i++ {
		l := Lane{Name: fmt.Sprintf("req%d", i), OpensStream: true, After: i - 1,
			Req:  &Req{Method: "GET", Scheme: "https", Path: fmt.Sprintf("/m/%d", i), Authority: "example.com", Fields: []HF{{"x-rid", fmt.Sprint(i)}}},
			Resp: &Resp{Status: 200, Mode: "buffered", BodyLen: Pick(r, 0, 10, 3000), ErrAt: -1, Fields: []HF{{"x-rid", fmt.Sprint(i)}}}}
		l.Ops = []Op{{Kind: "headers", Fields: []HF{{":method", "GET"}, {":scheme", "https"}, {":path", l.Req.Path}, {":authority", "example.com"}, {"x-rid", fmt.Sprint(i)}}, EndStream: true, Pad: -1, TableSize: -1}}
		p.Lanes = append(p.Lanes, l)
	}
	p.GateMode = "hold"
	switch r.Intn(4) {
	case 0:
		p.Faults = append(p.Faults, Fault{Kind: "close-peer", AfterOps: n - r.Intn(3)})
	case 1:
		p.Faults = append(p.Faults, Fault{Kind: "cut-rst", At: 0, AfterOps: n})
	case 2:
		p.Faults = append(p.Faults, Fault{Kind: "cut-eof", At: 0, AfterOps: n})
	case 3: // the peer simply leaves at the end of the workload
	}
	p.Mask = []string{"atomic", "prelock", "net", "yield"}
	p.PoolPol = r.Intn(3)
	p.Strategy = genStrategy(r)
	p.Strategy.Stay = Pick(r, 0.9, 0.97)
	p.SelSeed = r.Uint64()
	p.MaxSteps = 400000
	return p
}

// mutatePlan applies 1-3 structure-aware mutations: duplicate / delete / reorder a frame, flip a flag,
// retarget a frame to another stream id, insert a raw frame of arbitrary type.
func mutatePlan(r *RNG, p *SrvPlan) {
	for k := 0; k < 1+r.Intn(3); k++ {
		li := r.Intn(len(p.Lanes))
		l := &p.Lanes[li]
		if len(l.Ops) == 0 {
			continue
		}
		l.Req = nil // no longer a well-formed request as far as any oracle is concerned
		oi := r.Intn(len(l.Ops))
		switch r.Intn(7) {
		case 0: // duplicate
			l.Ops = append(l.Ops[:oi+1], l.Ops[oi:]...)
		case 1: // delete
			l.Ops = append(l.Ops[:oi], l.Ops[oi+1:]...)
		case 2: // flip END_STREAM
			l.Ops[oi].EndStream = !l.Ops[oi].EndStream
		case 3: // leave the header block open
			if l.Ops[oi].Kind == "headers" || l.Ops[oi].Kind == "trailers" {
				l.Ops[oi].NoEndHdrs = true
			}
		case 4: // retarget
			l.Ops[oi].StreamRef = Pick(r, -1, 2, 1+2*r.Intn(6), 1001)
		case 5: // raw frame of any type
			raw := Op{Kind: "raw", RawType: uint8(r.Intn(12)), RawFlags: uint8(r.Intn(256)), RawLen: Pick(r, 0, 1, 4, 5, 8, 9, 100), Pad: -1, TableSize: -1, StreamRef: Pick(r, 0, -1, 3)}
			if r.Intn(4) == 0 {
				// a padded DATA or HEADERS frame whose Pad Length octet is the payload length itself, or one off
				L := Pick(r, 1, 2, 5, 9, 100)
				raw.RawType, raw.RawFlags = uint8(Pick(r, 0, 1)), uint8(0x08|Pick(r, 0, 1, 4, 5))
				raw.RawHex, raw.RawLen = fmt.Sprintf("%02x", Pick(r, L, L, L-1, L+1)), L-1
			}
			l.Ops = append(l.Ops[:oi], append([]Op{raw}, l.Ops[oi:]...)...)
		case 6: // swap with the next op
			if oi+1 < len(l.Ops) {
				l.Ops[oi], l.Ops[oi+1] = l.Ops[oi+1], l.Ops[oi]
			}
		}
	}
}

func c17Final(w *SrvWorld, rep *LifeReport) *Violation {
	mk := func(rule, sig, d string) *Violation {
		return &Violation{Property: "C17", Rule: rule, Sig: sig, Detail: d}
	}
	for _, rc := range w.sim.R.Recovers {
		return mk("recovered-panic", "recovered-panic/"+siteFunc(rc.Site), fmt.Sprintf("panic recovered at %s on %s: %.1500s", rc.Site, shortName(rc.G), rc.Value))
	}
	for _, l := range w.log.lines {
		if strings.Contains(l, "panicked") || strings.Contains(l, "panic in the handler") {
			return mk("logged-panic", "logged-panic", fmt.Sprintf("server logged: %.400s", l))
		}
	}
	for _, pv := range w.sim.R.Pools.Viol {
		if pv.Kind == "recycled-while-owned" || pv.Kind == "handed-out-while-owned" {
			return mk("ctx-recycled-under-handler", "ctx-recycled/"+siteFunc(pv.Site), fmt.Sprintf("%s: pool %s at %s by %s (%s)", pv.Kind, pv.Pool, pv.Site, shortName(pv.G), pv.Detail))
		}
	}
	if !rep.ReturnedAfterHour {
		return mk("serveconn-stuck", "serveconn-stuck/"+blockedSig(rep.LeftAfterHour), fmt.Sprintf("the peer is gone and an hour has passed but ServeConn has not returned; goroutines: %s", strings.Join(rep.LeftAfterHour, "; ")))
	}
	if len(rep.LeftAfterHour) > 0 {
		return mk("goroutine-left", "goroutine-left/"+blockedSig(rep.LeftAfterHour), fmt.Sprintf("ServeConn returned but goroutines other than %d still-running handler(s) remain: %s", rep.HeldHandlers, strings.Join(rep.LeftAfterHour, "; ")))
	}
	if len(rep.LeftAtEnd) > 0 {
		return mk("handler-stuck", "handler-stuck/"+blockedSig(rep.LeftAtEnd), fmt.Sprintf("after the last handler was allowed to finish, goroutines remain: %s", strings.Join(rep.LeftAtEnd, "; ")))
	}
	return nil
}

// c17Nontrivial: a fault fired with a request or handler in flight, or a mutation/burst was part of the run.
func c17Nontrivial(w *SrvWorld) bool {
	nf := 0
	for k, v := range w.Probes {
		if strings.HasPrefix(k, "fault-") {
			nf += v
		}
	}
	return (nf > 0 && (len(w.Entries) > 0 || len(w.Streams) > 0 || w.opsSent > 2)) || len(w.lanes) > 0 && w.opsSent > 100
}
