package harness

import (
	"fmt"
	"os"
	"strings"
	"time"
)

// connOffence is one connection-scoped offence: the op(s) that commit it and the codes RFC 7540 allows in reply.
type connOffence struct {
	Kind  string
	Codes []uint32 // allowed GOAWAY codes
	Ops   func(r *RNG) []Op
	// NeedsStream: the ops are sent on the lane's own (new) stream
	OpensStream bool
}

const (
	cProtocol    = 1
	cInternal    = 2
	cFlowControl = 3
	cStreamClose = 5
	cFrameSize   = 6
	cCompression = 9
	cCalm        = 11
)

func rawOp(t, flags uint8, n int, ref int) Op {
	return Op{Kind: "raw", RawType: t, RawFlags: flags, RawLen: n, StreamRef: ref, Pad: -1, TableSize: -1}
}

var okHeaders = []HF{{":method", "GET"}, {":scheme", "https"}, {":path", "/x"}, {":authority", "example.com"}}

var connOffences = []connOffence{
	{Kind: "ping-bad-len", Codes: []uint32{cFrameSize}, Ops: func(r *RNG) []Op { return []Op{rawOp(FPing, 0, Pick(r, 0, 7, 9), -1)} }},
	{Kind: "settings-bad-len", Codes: []uint32{cFrameSize}, Ops: func(r *RNG) []Op { return []Op{rawOp(FSettings, 0, Pick(r, 1, 5, 7), -1)} }},
	{Kind: "settings-ack-payload", Codes: []uint32{cFrameSize}, Ops: func(r *RNG) []Op { return []Op{rawOp(FSettings, 1, 6, -1)} }},
	{Kind: "wupd-bad-len", Codes: []uint32{cFrameSize}, Ops: func(r *RNG) []Op { return []Op{rawOp(FWindowUpdate, 0, 3, -1)} }},
	{Kind: "goaway-bad-len", Codes: []uint32{cFrameSize}, Ops: func(r *RNG) []Op { return []Op{rawOp(FGoAway, 0, 4, -1)} }},
	{Kind: "oversized-settings", Codes: []uint32{cFrameSize}, Ops: func(r *RNG) []Op { return []Op{rawOp(FSettings, 0, 16386, -1)} }},
	{Kind: "settings-enable-push-2", Codes: []uint32{cProtocol}, Ops: func(r *RNG) []Op {
		return []Op{{Kind: "settings", Settings: [][2]uint32{{2, 2}}, Pad: -1, TableSize: -1}}
	}},
	{Kind: "settings-max-frame-small", Codes: []uint32{cProtocol}, Ops: func(r *RNG) []Op {
		return []Op{{Kind: "settings", Settings: [][2]uint32{{5, uint32(Pick(r, 0, 100, 16383))}}, Pad: -1, TableSize: -1}}
	}},
	{Kind: "settings-max-frame-big", Codes: []uint32{cProtocol}, Ops: func(r *RNG) []Op {
		return []Op{{Kind: "settings", Settings: [][2]uint32{{5, 1 << 24}}, Pad: -1, TableSize: -1}}
	}},
	{Kind: "settings-init-window-big", Codes: []uint32{cFlowControl}, Ops: func(r *RNG) []Op {
		return []Op{{Kind: "settings", Settings: [][2]uint32{{4, 1 << 31}}, Pad: -1, TableSize: -1}}
	}},
	// a stream window at exactly 2^31-1 (legal), then a larger SETTINGS_INITIAL_WINDOW_SIZE: the delta overflows it (RFC 7540 6.9.2)
	{Kind: "settings-window-overflow", Codes: []uint32{cFlowControl}, OpensStream: true, Ops: func(r *RNG) []Op {
		return []Op{{Kind: "settings", Settings: [][2]uint32{{4, 1000}}, Pad: -1, TableSize: -1},
			{Kind: "headers", Fields: okHeaders, Pad: -1, TableSize: -1},
			{Kind: "wupd", Incr: 1<<31 - 1 - 1000, Pad: -1, TableSize: -1},
			{Kind: "settings", Settings: [][2]uint32{{4, uint32(Pick(r, 1001, 2000, 65535))}}, Pad: -1, TableSize: -1}}
	}},
	{Kind: "conn-wupd-zero", Codes: []uint32{cProtocol}, Ops: func(r *RNG) []Op { return []Op{{Kind: "wupd", OnConn: true, Incr: 0, Pad: -1, TableSize: -1}} }},
	{Kind: "conn-wupd-overflow", Codes: []uint32{cFlowControl}, Ops: func(r *RNG) []Op {
		return []Op{{Kind: "wupd", OnConn: true, Incr: 1<<31 - 1, Pad: -1, TableSize: -1}}
	}},
	{Kind: "continuation-without-headers", Codes: []uint32{cProtocol}, Ops: func(r *RNG) []Op { return []Op{rawOp(FContinuation, 4, 3, 1)} }},
	{Kind: "frame-inside-block", Codes: []uint32{cProtocol}, OpensStream: true, Ops: func(r *RNG) []Op {
		return []Op{{Kind: "headers", Fields: okHeaders, NoEndHdrs: true, Pad: -1, TableSize: -1}, Pick(r, Op{Kind: "ping", Pad: -1, TableSize: -1}, Op{Kind: "wupd", OnConn: true, Incr: 1, Pad: -1, TableSize: -1}, rawOp(FData, 0, 1, 0))}
	}},
	{Kind: "push-promise", Codes: []uint32{cProtocol}, Ops: func(r *RNG) []Op { return []Op{rawOp(FPushPromise, 4, 4, 1)} }},
	{Kind: "ping-with-stream", Codes: []uint32{cProtocol}, Ops: func(r *RNG) []Op { return []Op{rawOp(FPing, 0, 8, 1)} }},
	{Kind: "settings-with-stream", Codes: []uint32{cProtocol}, Ops: func(r *RNG) []Op { return []Op{rawOp(FSettings, 0, 0, 1)} }},
	{Kind: "data-on-stream-0", Codes: []uint32{cProtocol}, Ops: func(r *RNG) []Op { return []Op{rawOp(FData, 0, 4, -1)} }},
	{Kind: "headers-on-stream-0", Codes: []uint32{cProtocol}, Ops: func(r *RNG) []Op {
		return []Op{{Kind: "headers", Fields: okHeaders, StreamRef: -1, EndStream: true, Pad: -1, TableSize: -1}}
	}},
	{Kind: "even-stream", Codes: []uint32{cProtocol}, Ops: func(r *RNG) []Op {
		return []Op{{Kind: "headers", Fields: okHeaders, StreamRef: 2 + 2*r.Intn(50), EndStream: true, Pad: -1, TableSize: -1}}
	}},
	{Kind: "data-idle", Codes: []uint32{cProtocol}, Ops: func(r *RNG) []Op { return []Op{rawOp(FData, 1, 4, 1001)} }},
	{Kind: "rst-idle", Codes: []uint32{cProtocol}, Ops: func(r *RNG) []Op { return []Op{{Kind: "rst", StreamRef: 1001, Code: 8, Pad: -1, TableSize: -1}} }},
	{Kind: "wupd-idle", Codes: []uint32{cProtocol}, Ops: func(r *RNG) []Op { return []Op{{Kind: "wupd", StreamRef: 1001, Incr: 10, Pad: -1, TableSize: -1}} }},
	// graceful path: the streams opened so far are served to the end, then the connection goes
	{Kind: "headers-lower-id", Codes: []uint32{cProtocol, cStreamClose}, Ops: func(r *RNG) []Op {
		return []Op{{Kind: "headers", Fields: okHeaders, StreamRef: -2, EndStream: true, Pad: -1, TableSize: -1}}
	}},
	{Kind: "hpack-bad-index", Codes: []uint32{cCompression}, OpensStream: true, Ops: func(r *RNG) []Op {
		return []Op{{Kind: "raw", RawType: FHeaders, RawFlags: 5, RawHex: Pick(r, "ffffff7f", "80"), Pad: -1, TableSize: -1}}
	}},
	{Kind: "hpack-truncated", Codes: []uint32{cCompression}, OpensStream: true, Ops: func(r *RNG) []Op {
		return []Op{{Kind: "raw", RawType: FHeaders, RawFlags: 5, RawHex: Pick(r, "8287844005", "828784400a3a6d", "82878441"), Pad: -1, TableSize: -1}}
	}},
	{Kind: "hpack-size-update-too-big", Codes: []uint32{cCompression}, OpensStream: true, Ops: func(r *RNG) []Op {
		return []Op{{Kind: "raw", RawType: FHeaders, RawFlags: 5, RawHex: "3fe1ff03" + "82878441016" + "1", Pad: -1, TableSize: -1}}
	}},
	// a string length of 2^63 and more: eleven octets, still a well-formed integer (RFC 7541 5.1)
	{Kind: "hpack-huge-string-length", Codes: []uint32{cCompression}, OpensStream: true, Ops: func(r *RNG) []Op {
		huge := "7f80808080808080808001"
		return []Op{{Kind: "raw", RawType: FHeaders, RawFlags: 5, RawHex: Pick(r, "8287"+"00"+huge, "8287"+"000161"+huge, "8287"+"40"+"ff80808080808080808001", "8287"+"0f2f"+huge), Pad: -1, TableSize: -1}}
	}},
	{Kind: "hpack-size-update-late", Codes: []uint32{cCompression}, OpensStream: true, Ops: func(r *RNG) []Op {
		return []Op{{Kind: "raw", RawType: FHeaders, RawFlags: 5, RawHex: "8287" + "20" + "84410161", Pad: -1, TableSize: -1}}
	}},
}

func offenceByKind(k string) connOffence {
	for _, o := range connOffences {
		if o.Kind == k {
			return o
		}
	}
	panic("no offence " + k)
}

// GenC10: well-formed traffic, one connection-scoped offence at a seeded position, trailing behaviour of the peer.
func GenC10(r *RNG) *SrvPlan {
	p := &SrvPlan{Family: "c10"}
	mcs := Pick(r, 4, 16)
	p.Srv = SrvCfg{MaxConcurrentStreams: mcs, PingInterval: Pick(r, time.Duration(-1), -1, 10*time.Second)}
	p.Peer = PeerCfg{InitialWindow: 1 << 20, MaxFrameSize: -1, HeaderTableSize: -1, AutoWindow: true, ConnWindowBoost: 1 << 24, LinkCap: Pick(r, 0, 0, 4096)}
	o := ReqOpts{MaxBody: 20000, Variety: r.Intn(2) == 0, Splits: r.Intn(2) == 0, Padding: r.Intn(3) == 0, RespModes: []string{"buffered", "stream-declared"}, RespMaxBody: 40000}
	before := r.Intn(4)
	for i := 0; i < before; i++ {
		l := GenRequestLane(r, i, o)
		p.Lanes = append(p.Lanes, l)
	}
	off := connOffences[r.Intn(len(connOffences))]
	if r.Intn(6) == 0 {
		off = offenceByKind("headers-lower-id") // the only one with streams left to finish: give it a share of its own
	}
	if k := os.Getenv("VERIF_C10_KIND"); k != "" {
		off = offenceByKind(k) // development aid: pin the offence kind
	}
	ol := Lane{Name: "offence-" + off.Kind, Offender: off.Kind, After: -1, OpensStream: off.OpensStream, Ops: off.Ops(r)}
	switch r.Intn(3) {
	case 0: // concurrently with the requests before it
	case 1: // after they have all been sent and answered
		ol.After = -3
	case 2: // after one of them was sent
		if before > 0 {
			ol.After = r.Intn(before)
		}
	}
	if off.Kind == "headers-lower-id" {
		// needs an id that was left out below a stream already opened
		if before == 0 {
			p.Lanes = append(p.Lanes, GenRequestLane(r, 0, o))
			before = 1
		}
		p.Lanes[before-1].SkipID = true
		if ol.After != -3 {
			ol.After = before - 1
		}
		if r.Intn(2) == 0 {
			// what is left of the promised responses waits for window the peer grants late, and as little as it takes
			p.Peer.AutoWindow = false
			p.Peer.DrainGrants = true
			if r.Intn(2) == 0 {
				// held by the stream windows
				p.Peer.InitialWindow = Pick(r, int64(0), 100, 70000)
				p.Peer.ConnWindowBoost = 1 << 24
			} else {
				// held by the connection window alone
				p.Peer.InitialWindow = 1 << 20
				p.Peer.ConnWindowBoost = 0
				k := r.Intn(before)
				if p.Lanes[k].Resp != nil {
					p.Lanes[k].Resp.BodyLen = Pick(r, 70000, 100000)
					p.Lanes[k].Resp.Mode = "buffered"
				}
			}
		}
	}
	p.Lanes = append(p.Lanes, ol)
	offIdx := len(p.Lanes) - 1
	// the peer may give up on requests it sent before the offence (their handlers may still be running)
	if before > 0 && r.Intn(3) == 0 {
		k := r.Intn(before)
		p.Lanes = append(p.Lanes, Lane{Name: fmt.Sprintf("cancel-%d", k), After: offIdx, Ops: []Op{{Kind: "rst", LaneRef: k + 1, Code: 8, Pad: -1, TableSize: -1}}})
	}
	// trailing behaviour
	trail := Pick(r, "keep-sending", "keep-sending", "silent", "stall", "disconnect")
	switch trail {
	case "keep-sending":
		n := 1 + r.Intn(3)
		for i := 0; i < n; i++ {
			l := GenRequestLane(r, len(p.Lanes), o)
			l.After = offIdx // opened after the offence was sent: must never be dispatched
			l.Offender = "after-offence"
			p.Lanes = append(p.Lanes, l)
		}
		if r.Intn(3) == 0 {
			b := Lane{Name: "trail-burst", After: offIdx}
			for i := 0; i < 40+r.Intn(120); i++ {
				b.Ops = append(b.Ops, Op{Kind: "ping", Pad: -1, TableSize: -1})
			}
			p.Lanes = append(p.Lanes, b)
		}
	case "stall":
		p.Peer.LinkCap = 2048
		p.Faults = append(p.Faults, Fault{Kind: "stall-s2c", AfterOps: -1})
	case "disconnect":
		p.Faults = append(p.Faults, Fault{Kind: "close-peer", AfterOps: 1})
	}
	p.Trail = trail
	p.GateMode = Pick(r, "sched", "sched", "open")
	p.Mask = genMask(r)
	p.PoolPol = r.Intn(3)
	p.Strategy = genStrategy(r)
	p.SelSeed = r.Uint64()
	p.Frag = r.Intn(3) == 0
	p.DelayS2C = r.Intn(2) == 0
	return p
}

// GenC10Idle: IdleTimeout set; requests arrive around the deadline on the fake clock; handlers gated across it.
func GenC10Idle(r *RNG) *SrvPlan {
	p := &SrvPlan{Family: "c10-idle"}
	p.Srv = SrvCfg{MaxConcurrentStreams: 16, PingInterval: -1, IdleTimeout: Pick(r, time.Second, 10*time.Second)}
	p.Peer = PeerCfg{InitialWindow: 1 << 20, MaxFrameSize: -1, HeaderTableSize: -1, AutoWindow: true, ConnWindowBoost: 1 << 24}
	o := ReqOpts{MaxBody: 1000, RespModes: []string{"buffered"}, RespMaxBody: 5000}
	n := 1 + r.Intn(4)
	for i := 0; i < n; i++ {
		l := GenRequestLane(r, i, o)
		if i > 0 && r.Intn(2) == 0 {
			l.After = i - 1
			l.AfterResp = r.Intn(2) == 0
		}
		p.Lanes = append(p.Lanes, l)
	}
	p.Trail = "idle"
	p.GateMode = "sched"
	p.Mask = genMask(r)
	p.PoolPol = r.Intn(3)
	p.Strategy = genStrategy(r)
	p.Strategy.TimeRace = Pick(r, 0.05, 0.15, 0.3)
	p.Strategy.TimeSteps = []time.Duration{p.Srv.IdleTimeout / 3, p.Srv.IdleTimeout / 2, p.Srv.IdleTimeout, time.Millisecond}
	p.SelSeed = r.Uint64()
	return p
}

func normMsg(b []byte) string {
	s := string(b)
	var sb strings.Builder
	for _, c := range s {
		if c >= '0' && c <= '9' || c == '\n' {
			break
		}
		sb.WriteRune(c)
	}
	out := strings.TrimSpace(sb.String())
	if len(out) > 50 {
		out = out[:50]
	}
	return strings.ReplaceAll(out, " ", "-")
}

// c10Final evaluates every rule of C10 independently; the first failure is the run's violation, the others
// are reported as extra violations, so that a known finding never hides a different failure of the same run.
func c10Final(w *SrvWorld, rep *LifeReport) *Violation {
	var all []*Violation
	mk := func(rule, sig, d string) *Violation {
		v := &Violation{Property: "C10", Rule: rule, Sig: sig, Detail: d}
		all = append(all, v)
		return v
	}
	c10Rules(w, rep, mk)
	if len(all) == 0 {
		return nil
	}
	w.ExtraViol = append(w.ExtraViol, all[1:]...)
	return all[0]
}

func c10Rules(w *SrvWorld, rep *LifeReport, mk func(rule, sig, d string) *Violation) {
	var off *laneState
	for _, l := range w.lanes {
		if l.lane.Offender != "" && l.lane.Offender != "after-offence" {
			off = l
		}
	}
	// which stream ids were dispatched (at any time in the run)?
	maxDisp := uint32(0)
	var disp []string
	for rid, n := range w.Entries {
		if n > 0 && rid >= 0 && rid < len(w.lanes) {
			id := w.lanes[rid].id
			disp = append(disp, fmt.Sprint(id))
			if id > maxDisp {
				maxDisp = id
			}
			if w.lanes[rid].lane.Offender == "after-offence" {
				mk("dispatched-after-connection-error", "dispatched-after-connection-error/"+off.lane.Offender,
					fmt.Sprintf("request %d (stream %d) was opened after the connection-scoped offence %s had been sent, and was handed to the handler", rid, id, off.lane.Offender))
			}
		}
	}
	offStream := uint32(0)
	if off != nil && len(off.lane.Ops) > 0 {
		offStream = w.refID(off, &off.lane.Ops[len(off.lane.Ops)-1])
	}
	for _, g := range w.GoAways {
		if g.LastStream < maxDisp {
			class := "other"
			switch {
			case g.LastStream == 0:
				class = "zero"
			case off != nil && (g.LastStream == off.id || g.LastStream == offStream):
				class = "offender-id"
			}
			mk("goaway-last-id-too-small", "goaway-last-id-too-small/"+class,
				fmt.Sprintf("GOAWAY(last-stream-id=%d, code=%d, %.80q) but the handler was called for stream(s) %s: a client would replay a request that was processed", g.LastStream, g.Code, g.Debug, strings.Join(disp, ",")))
			break
		}
	}
	if off != nil && off.sentAll && len(w.c2s.Inflight) == 0 && !w.offenceCut {
		allowed := false
		codes := connOffenceCodes(off.lane.Offender)
		for _, g := range w.GoAways {
			for _, c := range codes {
				if g.Code == c {
					allowed = true
				}
			}
			if !allowed && g.Code != 0 {
				mk("goaway-code", fmt.Sprintf("goaway-code/%s/got=%d", off.lane.Offender, g.Code),
					fmt.Sprintf("offence %s answered with GOAWAY code %d (%.80q); RFC 7540 allows %v", off.lane.Offender, g.Code, g.Debug, codes))
			}
		}
		if len(w.GoAways) == 0 && !w.PeerEOF && !w.Returned && w.plan.Trail != "stall" && w.plan.Trail != "disconnect" {
			mk("offence-tolerated", "offence-tolerated/"+off.lane.Offender, fmt.Sprintf("offence %s drew neither a GOAWAY nor a close", off.lane.Offender))
		}
	}
	for _, rc := range w.sim.R.Recovers {
		if !strings.Contains(rc.Value, "injected handler panic") {
			mk("recovered-panic", "recovered-panic/"+siteFunc(rc.Site), fmt.Sprintf("panic recovered at %s: %.1200s", rc.Site, rc.Value))
		}
	}
	if T := w.plan.Srv.IdleTimeout; w.plan.Trail == "idle" && T > 0 && len(w.GoAways) > 0 && w.GoAways[0].Code == 0 {
		// an idle shutdown says nothing has been asked of the connection for IdleTimeout. Every request the server has
		// handed to a handler was sent no later than the server saw it, and seeing it restarts the idle period:
		// the GOAWAY cannot arrive less than IdleTimeout after such a request was sent
		// when the idle timer fired: the moment its callback began to run (the only AfterFunc of a connection here)
		tf := time.Duration(-1)
		for name, at := range w.sim.TimerStarts {
			if strings.HasPrefix(name, "timer:serverConn.go") && (tf < 0 || at < tf) {
				tf = at
			}
		}
		for i, l := range w.lanes {
			if tf < 0 || l.id == 0 || l.lane.Req == nil || w.Entries[i] == 0 {
				continue
			}
			// the request was being handled (tE, no earlier than when its HEADERS were processed) strictly before the
			// timer fired, and the timer fired less than IdleTimeout after the request had even been sent: the server
			// had seen the request and did not restart the idle period
			if tE, ok := w.EnterNow[i]; ok && tf > tE+time.Millisecond && tf-l.openedNow < T {
				mk("idle-premature", "idle-premature", fmt.Sprintf("the idle timer fired %v after request %d (stream %d) was sent and %v after its handler had started; IdleTimeout is %v: the request did not restart the idle period", tf-l.openedNow, i, l.id, tf-tE, T))
				break
			}
		}
	}
	committed := off != nil && off.sentAll && len(w.c2s.Inflight) == 0 && !w.offenceCut
	if committed && off.lane.Offender == "headers-lower-id" && w.plan.Trail == "stall" {
		// after this offence the server finishes the streams it has promised before it goes ("once the streams it
		// promised have finished"); a peer that does not read keeps their responses from ever finishing
		committed = false
	}
	if committed || w.plan.Trail == "idle" {
		backlogged := false
		if w.plan.Trail == "stall" && len(w.GoAways) == 0 {
			// a peer that has not been reading since before the offence: the write loop sits in Write, the stream loop
			// waits for room in the full queue behind it and has not come to the offending frame yet, the read loop has
			// handed everything over and waits for more. No connection error has been found, so nothing is owed yet
			// (a server without write deadlines can be held like this by any peer, with or without an offence).
			rd, sl := false, false
			for _, g := range rep.LeftWhilePeerStays {
				if strings.HasPrefix(g, "ServeConn @ ") && strings.Contains(g, "srv.Read") {
					rd = true
				}
				if strings.Contains(g, "(serverConn.Serve)") && strings.Contains(g, "(serverConn.write)") {
					sl = true
				}
			}
			backlogged = rd && sl
		}
		if rep.StayedChecked && !rep.ReturnedWhilePeerStays && !backlogged {
			offKind := "none"
			if off != nil {
				offKind = off.lane.Offender
			}
			mk("serveconn-stuck-peer-connected", "serveconn-stuck-peer-connected/"+stuckClass(rep.LeftWhilePeerStays)+"/"+offKind,
				fmt.Sprintf("an hour after the connection error (every promised handler released) ServeConn has not returned while the peer is still connected (%s); goroutines: %s", w.plan.Trail, strings.Join(rep.LeftWhilePeerStays, "; ")))
		}
	}
	if !rep.ReturnedAfterHour {
		mk("serveconn-stuck", "serveconn-stuck/"+blockedSig(rep.LeftAfterHour), fmt.Sprintf("ServeConn has not returned an hour after the peer left; goroutines: %s", strings.Join(rep.LeftAfterHour, "; ")))
	}
	if len(rep.LeftAtEnd) > 0 {
		mk("goroutine-left", "goroutine-left/"+blockedSig(rep.LeftAtEnd), "goroutines remain: "+strings.Join(rep.LeftAtEnd, "; "))
	}
}

func connOffenceCodes(kind string) []uint32 {
	for _, o := range connOffences {
		if o.Kind == kind {
			return o.Codes
		}
	}
	return nil
}

// c10Nontrivial: a GOAWAY was observed with ≥1 stream dispatched before it, or an offence was committed with traffic around it.
func c10Nontrivial(w *SrvWorld) bool {
	return len(w.GoAways) > 0 && (len(w.Entries) > 0 || len(w.Streams) > 0 || w.opsSent > 2)
}

// stuckClass names the cause of a connection handler that does not end while the peer is still connected.
func stuckClass(left []string) string {
	sig := blockedSig(left)
	wr := strings.Contains(sig, "srv.Write")
	q := strings.Contains(sig, "(serverConn.write)") || strings.Contains(sig, "(serverConn.readLoop)")
	switch {
	case wr && q:
		return "write-blocked+queue"
	case wr:
		return "write-blocked"
	case q:
		return "queue-wedge"
	}
	return "lingering"
}
