package harness

import (
	"fmt"
	"strings"

	xh2 "golang.org/x/net/http2"
)

// GenC18Client: the scripted server sends SETTINGS sequences while requests are in flight; requests carry header
// lists and bodies that straddle the advertised frame sizes; MAX_CONCURRENT_STREAMS is small.
func GenC18Client(r *RNG) *CliPlan {
	p := &CliPlan{Family: "c18-client"}
	genCliCommon(r, p)
	p.Srv = PeerCfg{InitialWindow: 1 << 20, MaxFrameSize: Pick(r, int64(-1), 16384, 16385, 65536), HeaderTableSize: Pick(r, int64(-1), 0, 100, 4096, 8192, 65536),
		AutoWindow: true, ConnWindowBoost: 1 << 24, DrainGrants: true}
	p.SrvMaxStreams = Pick(r, int64(-1), 1, 2, 3, 100)
	if r.Intn(3) == 0 {
		// request bodies that stall on a small window and are resumed by the grants of the drain phase, after whatever
		// SETTINGS the control lane has sent in between: what is sent then has to go by the values acknowledged last
		p.Srv.AutoWindow = false
		p.Srv.InitialWindow = Pick(r, int64(1000), 20000, 40000)
		p.Srv.MaxFrameSize = Pick(r, int64(65536), 65536, 1<<20)
	}
	n := 2 + r.Intn(5)
	o := CliOpts{MaxBody: 70000, BodyModes: []string{"buffered", "stream-declared"}, RespMaxBody: 1000, AlwaysWaitEnd: true}
	big := r.Intn(4) == 0
	for k := 0; k < n; k++ {
		q, l := GenCliReq(r, k, o)
		if big && k == 0 {
			for j := 0; j < 6; j++ {
				q.Fields = append(q.Fields, HF{fmt.Sprintf("x-big-%d", j), strings.Repeat("v", 3500)})
			}
		}
		// responses never touch the dynamic table: this family is about SETTINGS
		for i := range l.Ops {
			if l.Ops[i].Kind == "headers" {
				l.Ops[i].Reps = make([]Rep, len(l.Ops[i].Fields))
				for j := range l.Ops[i].Reps {
					l.Ops[i].Reps[j] = 2
				}
			}
		}
		p.Reqs = append(p.Reqs, q)
		p.Lanes = append(p.Lanes, l)
	}
	ctl := Lane{Name: "settings", After: -1}
	curTable := uint32(4096)
	if p.Srv.HeaderTableSize >= 0 {
		curTable = uint32(p.Srv.HeaderTableSize)
	}
	_ = curTable
	kk := 1 + r.Intn(5)
	for j := 0; j < kk; j++ {
		var kv [][2]uint32
		m := 1 + r.Intn(3)
		for x := 0; x < m; x++ {
			switch r.Intn(7) {
			case 0:
				kv = append(kv, [2]uint32{1, uint32(Pick(r, 0, 100, 4096, 65536))})
			case 1:
				kv = append(kv, [2]uint32{3, uint32(Pick(r, 1, 2, 3, 100))})
			case 2:
				kv = append(kv, [2]uint32{4, uint32(Pick(r, 65535, 1<<20, 1<<24))})
			case 3:
				kv = append(kv, [2]uint32{5, uint32(Pick(r, 16384, 16384, 16385, 1<<20))})
			case 4:
				kv = append(kv, [2]uint32{6, uint32(Pick(r, 100, 1<<20))})
			case 5:
				kv = append(kv, [2]uint32{uint32(Pick(r, 7, 9, 0xffff)), uint32(r.Intn(1 << 20))})
			case 6:
			}
		}
		ctl.Ops = append(ctl.Ops, Op{Kind: "settings", Settings: kv, Pad: -1, TableSize: -1})
	}
	p.Lanes = append(p.Lanes, ctl)
	p.Trail = "c18-client"
	return p
}

// GenC18ClientBad: the server sends an invalid SETTINGS value or a PUSH_PROMISE; the client must stop using the connection.
func GenC18ClientBad(r *RNG) *CliPlan {
	p := &CliPlan{Family: "c18-client-bad"}
	genCliCommon(r, p)
	p.Srv = PeerCfg{InitialWindow: 1 << 20, MaxFrameSize: -1, HeaderTableSize: -1, AutoWindow: true, ConnWindowBoost: 1 << 24}
	p.SrvMaxStreams = -1
	n := 2 + r.Intn(3)
	o := CliOpts{MaxBody: 1000, BodyModes: []string{"buffered"}, RespMaxBody: 1000, AlwaysWaitEnd: true}
	for k := 0; k < n; k++ {
		q, l := GenCliReq(r, k, o)
		if k == n-1 {
			q.StartAfter = 0 // one caller arrives after the first one came back, i.e. certainly after the offence
		}
		p.Reqs = append(p.Reqs, q)
		p.Lanes = append(p.Lanes, l)
	}
	kind := Pick(r, "enable-push-2", "max-frame-small", "max-frame-big", "init-window-big", "push-promise", "push-promise", "push-promise-finished", "push-promise-idle", "settings-bad-len", "settings-ack-payload")
	if kind == "push-promise-finished" && n < 3 {
		kind = "push-promise-idle"
	}
	bad := Lane{Name: "bad-" + kind, After: -1}
	switch kind {
	case "enable-push-2":
		bad.Ops = []Op{{Kind: "settings", Settings: [][2]uint32{{2, 2}}, Pad: -1, TableSize: -1}}
	case "max-frame-small":
		bad.Ops = []Op{{Kind: "settings", Settings: [][2]uint32{{5, 100}}, Pad: -1, TableSize: -1}}
	case "max-frame-big":
		bad.Ops = []Op{{Kind: "settings", Settings: [][2]uint32{{5, 1 << 24}}, Pad: -1, TableSize: -1}}
	case "init-window-big":
		bad.Ops = []Op{{Kind: "settings", Settings: [][2]uint32{{4, 1 << 31}}, Pad: -1, TableSize: -1}}
	case "push-promise":
		bad.Ops = []Op{{Kind: "raw", RawType: FPushPromise, RawFlags: 4, RawHex: "00000002" + "8287", LaneRef: 1, Pad: -1, TableSize: -1}}
	case "push-promise-idle":
		// on a stream the client never opened
		bad.Ops = []Op{{Kind: "raw", RawType: FPushPromise, RawFlags: 4, RawHex: "00000002" + "8287", StreamRef: 101, Pad: -1, TableSize: -1}}
	case "push-promise-finished":
		// on the stream of a request that has been answered in full: nobody is waiting on it any more
		bad.Ops = []Op{{Kind: "raw", RawType: FPushPromise, RawFlags: 4, RawHex: "00000002" + "8287", LaneRef: 1, Pad: -1, TableSize: -1}}
	case "settings-bad-len":
		bad.Ops = []Op{rawOp(FSettings, 0, 5, -1)}
	case "settings-ack-payload":
		bad.Ops = []Op{rawOp(FSettings, 1, 6, -1)}
	}
	if kind == "push-promise-finished" {
		// response 0 in full, then the offence, then response 1; the late caller waits for request 1 to come back
		bad.After = 0
		bad.Ops = append([]Op{{Kind: "wait-req", Len: 1, Pad: -1, TableSize: -1}}, bad.Ops...)
		p.Lanes[1].After = len(p.Lanes)
		p.Reqs[n-1].StartAfter = 1
		p.Reqs[1].StartAfter = -1
	} else {
		// the offence goes out after request 0 has arrived, before it is answered
		bad.Ops = append([]Op{{Kind: "wait-req", Len: 0, Pad: -1, TableSize: -1}}, bad.Ops...)
		p.Lanes[0].After = len(p.Lanes) // response 0 only after the offence lane is done
	}
	p.Lanes = append(p.Lanes, bad)
	p.Trail = "c18-bad/" + kind
	return p
}

// c18ClientFinal evaluates every rule independently (first failure = the run's violation, others = extras).
func c18ClientFinal(w *CliWorld) *Violation {
	var all []*Violation
	c18ClientRules(w, func(rule, sig, d string) *Violation {
		v := &Violation{Property: "C18", Rule: rule, Sig: sig, Detail: d}
		all = append(all, v)
		return v
	})
	if len(all) == 0 {
		return nil
	}
	w.ExtraViol = append(w.ExtraViol, all[1:]...)
	return all[0]
}

func c18ClientRules(w *CliWorld, mk func(rule, sig, d string) *Violation) {
	if !w.HsOK {
		mk("handshake", "handshake", fmt.Sprintf("handshake failed: %v", w.HsErr))
		return
	}
	// the client's own advertisement: ENABLE_PUSH=0 in its first SETTINGS
	push := -1
	for _, s := range w.ClientSettings {
		if s.ID == xh2.SettingEnablePush {
			push = int(s.Val)
		}
	}
	if push != 0 {
		got := "not present (the default is 1: enabled)"
		if push > 0 {
			got = fmt.Sprint(push)
		}
		mk("enable-push-not-advertised", "enable-push-not-advertised", "the client never sends SETTINGS_ENABLE_PUSH=0 although it treats a PUSH_PROMISE as a connection error: value "+got)
	}
	if strings.HasPrefix(w.plan.Trail, "c18-bad/") {
		kind := strings.TrimPrefix(w.plan.Trail, "c18-bad/")
		bad := w.lanes[len(w.lanes)-1]
		if !bad.sentAll {
			return // the offence never went out (request 0 did not arrive)
		}
		// no stream may be opened after the client has processed the offence: the late caller must not reach the server
		last := len(w.plan.Reqs) - 1
		if _, ok := w.ridStream[last]; ok && w.callers[last].started {
			mk("connection-used-after-invalid-settings", "connection-used-after-error/"+kind,
				fmt.Sprintf("after %s from the server the client opened another stream (request %d) on the same connection", kind, last))
		}
		return
	}
	if w.SettingsAcks != w.settingsSent {
		mk("ack-count", "ack-count", fmt.Sprintf("%d SETTINGS sent, %d ACKs received at quiescence", w.settingsSent, w.SettingsAcks))
	}
	for _, f := range w.Frames {
		_ = f
	}
	if w.FrameSizeViol != nil {
		mk(w.FrameSizeViol.Rule, w.FrameSizeViol.Sig, w.FrameSizeViol.Detail)
	}
	for i, n := range w.openAtHeaders {
		if int64(n)+1 > w.maxOpenLimit[i] {
			mk("max-concurrent-streams", "max-concurrent-streams", fmt.Sprintf("stream #%d was opened with %d streams already open; the server's SETTINGS_MAX_CONCURRENT_STREAMS allows %d (most permissive reading)", i+1, n, w.maxOpenLimit[i]))
			break
		}
	}
	for _, id := range w.streamOrder {
		if ss := w.Streams[id]; ss.DecodeErr != "" {
			mk("hpack-table-size", "hpack-table-size/"+normMsg([]byte(ss.DecodeErr)), fmt.Sprintf("request on stream %d: an x/net decoder limited to the advertised SETTINGS_HEADER_TABLE_SIZE rejects the header block: %s", id, ss.DecodeErr))
			break
		}
	}
}

func c18ClientOnline(w *CliWorld) *Violation {
	if w.SettingsAcks > w.settingsSent {
		return &Violation{Property: "C18", Rule: "ack-without-settings", Sig: "ack-without-settings", Detail: fmt.Sprintf("%d ACKs for %d SETTINGS", w.SettingsAcks, w.settingsSent)}
	}
	return nil
}

func c18ClientNontrivial(w *CliWorld) bool { return w.SettingsAcks >= 2 && len(w.Streams) > 0 }
