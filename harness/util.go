package harness

import (
	"runtime"
	"strconv"
)

func runtimeStack(buf []byte) int { return runtime.Stack(buf, true) }

var heartbeat int64

// itoa formats any integer without going through fmt (whose pooled printers add noise in race builds).
func itoa[T ~int | ~int64 | ~uint32 | ~int32 | ~uint64 | ~uint8](v T) string {
	return strconv.FormatInt(int64(v), 10)
}
