package harness

import "runtime"

func runtimeStack(buf []byte) int { return runtime.Stack(buf, true) }

var heartbeat int64
