package harness

import (
	"fmt"
	"runtime"
	"simrt"
	"strings"
	"testing"
	"testing/synctest"
	"time"
)

// RunResult is what one simulated run reports.
type RunResult struct {
	Property string     `json:"property"`
	Family   string     `json:"family"`
	Seed     uint64     `json:"seed"`
	Run      int        `json:"run"`
	Viol     *Violation `json:"violation,omitempty"`
	// Extra: further, independent rule failures of the same run (each judged on its own against the known findings)
	Extra      []*Violation          `json:"extra_violations,omitempty"`
	Stuck      string                `json:"stuck,omitempty"`
	Steps      int                   `json:"steps"`
	Switches   int                   `json:"switches"`
	SimTimeNs  int64                 `json:"sim_time_ns"`
	TraceHash  uint64                `json:"trace_hash"`
	ILHash     uint64                `json:"il_hash"`
	Nontrivial bool                  `json:"nontrivial"`
	Probes     map[string]int        `json:"probes,omitempty"`
	Sites      map[string]int        `json:"sites,omitempty"`
	Pairs      int                   `json:"pairs"`
	Trace      []string              `json:"trace,omitempty"`
	Tape       []uint32              `json:"tape,omitempty"`
	Summary    string                `json:"summary,omitempty"`
	Leaked     []string              `json:"leaked,omitempty"`
	PoolViol   int                   `json:"pool_viol"`
	PoolViols  []simrt.PoolViolation `json:"-"`
	KnownHit   string                `json:"known_hit,omitempty"`
	Sample     *Sample               `json:"sample,omitempty"`
}

// Sample is one run written out in full for the evidence file.
type Sample struct {
	Plan    []byte   `json:"-"`
	PlanRaw any      `json:"plan"`
	Trace   []string `json:"trace"`
	Summary string   `json:"summary"`
}

// InBubble runs f inside a fresh synctest bubble and survives the end-of-bubble deadlock panic
// that synctest raises when f leaves blocked goroutines behind. It reports whether that happened.
func InBubble(t *testing.T, f func()) (leaked bool, crashed string) {
	// every bubble is its own subtest: a race report (race build) or any other failure the testing
	// package attributes to it fails that subtest only and the worker carries on with the next run
	t.Run("run", func(st *testing.T) {
		defer func() {
			if r := recover(); r != nil {
				msg := fmt.Sprint(r)
				if strings.Contains(msg, "deadlock: main bubble goroutine has exited") {
					leaked = true
					return
				}
				buf := make([]byte, 16384)
				buf = buf[:runtime.Stack(buf, false)]
				crashed = msg + "\n" + string(buf)
			}
		}()
		synctest.Test(st, func(*testing.T) {
			// a panic of the harness itself on the scheduler goroutine must not take the worker down
			defer func() {
				if r := recover(); r != nil {
					buf := make([]byte, 16384)
					buf = buf[:runtime.Stack(buf, false)]
					crashed = fmt.Sprint(r) + "\n" + string(buf)
					if cur := simrtCurrent(); cur != nil {
						cur.End()
					}
				}
			}()
			f()
		})
	})
	return
}

// finish fills the generic part of a result from the simulation.
func (s *Sim) finish(r *RunResult) {
	r.Steps = s.Steps
	r.Switches = s.Switches
	r.SimTimeNs = int64(time.Since(s.Start))
	r.TraceHash = s.TraceHash()
	r.ILHash = s.InterleavingHash()
	r.Pairs = len(s.Pairs)
	r.Sites = s.R.SiteHits
	r.Tape = s.Tape.Vals
	r.Stuck = s.Stuck
	if s.Viol != nil && r.Viol == nil {
		r.Viol = s.Viol
	}
	if r.Viol != nil && r.Viol.Property == "HARNESS" {
		r.Stuck = r.Viol.Detail
		r.Viol = nil
	}
	if s.Steps >= s.MaxSteps && r.Viol == nil && r.Stuck == "" {
		r.Stuck = fmt.Sprintf("step budget of %d exhausted", s.MaxSteps)
	}
	r.Trace = s.Trace
	s.R.Pools.CheckFree()
	r.PoolViols = s.R.Pools.Viol
	r.PoolViol = len(r.PoolViols)
	if r.Viol != nil || r.Stuck != "" {
		// where is everybody? (for the human reading the replay file)
		for _, n := range s.Alive(false) {
			r.Trace = append(r.Trace, "    # alive at the end: "+shortName(n)+" @ "+s.ParkedOn(n))
		}
	}
	s.R.End()
	simrt.Unquiet()
}

func simrtCurrent() *simrt.Run { return simrt.Current() }
