package harness

import (
	"fmt"
	"strings"
)

// GenC18Server: SETTINGS sequences (any subset, repeats, boundary values, unknown ids) interleaved with requests whose
// responses straddle the advertised frame sizes; HEADER_TABLE_SIZE schedules.
func GenC18Server(r *RNG) *SrvPlan    { return genC18Server(r, true) }
func GenC18ServerAll(r *RNG) *SrvPlan { return genC18Server(r, false) }

// avoid: stay away from the two known findings (a SETTINGS frame that does not mention HEADER_TABLE_SIZE after one that
// set it below 4096; a response header list larger than one frame), so that other failures are not hidden behind them.
func genC18Server(r *RNG, avoid bool) *SrvPlan {
	p := &SrvPlan{Family: "c18-server"}
	p.Srv = SrvCfg{MaxConcurrentStreams: 16, PingInterval: -1}
	p.Peer = PeerCfg{InitialWindow: Pick(r, int64(-1), 1<<20), MaxFrameSize: Pick(r, int64(-1), 16384, 16385, 65536), HeaderTableSize: Pick(r, int64(-1), 0, 100, 4096, 8192),
		AutoWindow: true, ConnWindowBoost: 1 << 24, DrainGrants: true}
	n := 1 + r.Intn(4)
	big := r.Intn(3) == 0 && !avoid
	for i := 0; i < n; i++ {
		resp := &Resp{Status: 200, ErrAt: -1, BodyLen: Pick(r, 0, 100, 16384, 16385, 40000, 70000), Mode: Pick(r, "buffered", "stream-declared")}
		nf := r.Intn(4)
		for j := 0; j < nf; j++ {
			resp.Fields = append(resp.Fields, HF{fmt.Sprintf("x-resp-%d", j), Pick(r, respValues...)})
		}
		if big && i == 0 {
			// a header list larger than any frame the peer said it takes
			for j := 0; j < 6; j++ {
				resp.Fields = append(resp.Fields, HF{fmt.Sprintf("x-big-%d", j), strings.Repeat("v", 3500)})
			}
		}
		l := simpleGet(r, i, resp)
		if i > 0 && r.Intn(2) == 0 {
			l.After = i - 1
			l.AfterResp = r.Intn(2) == 0
		}
		p.Lanes = append(p.Lanes, l)
	}
	ctl := Lane{Name: "settings", After: -1}
	curTable := uint32(4096)
	if p.Peer.HeaderTableSize >= 0 {
		curTable = uint32(p.Peer.HeaderTableSize)
	}
	k := 1 + r.Intn(6)
	for j := 0; j < k; j++ {
		var kv [][2]uint32
		m := 1 + r.Intn(3)
		for x := 0; x < m; x++ {
			switch r.Intn(8) {
			case 0:
				kv = append(kv, [2]uint32{1, uint32(Pick(r, 0, 1, 100, 4096, 4097, 65536))})
			case 1:
				kv = append(kv, [2]uint32{2, uint32(Pick(r, 0, 1))})
			case 2:
				kv = append(kv, [2]uint32{3, uint32(Pick(r, 0, 1, 100, 1<<31-1))})
			case 3:
				kv = append(kv, [2]uint32{4, uint32(Pick(r, 65535, 100000, 1<<20, 1<<31-1))})
			case 4:
				kv = append(kv, [2]uint32{5, uint32(Pick(r, 16384, 16385, 1<<20, 1<<24-1))})
			case 5:
				kv = append(kv, [2]uint32{6, uint32(Pick(r, 0, 100, 1<<20))})
			case 6:
				kv = append(kv, [2]uint32{uint32(Pick(r, 7, 8, 9, 0xff, 0xffff)), uint32(r.Intn(1 << 20))}) // unknown ids: ignored
			case 7:
				// empty SETTINGS
			}
		}
		if avoid {
			// every SETTINGS frame restates the table size currently in force
			has := false
			for _, x := range kv {
				if x[0] == 1 {
					has = true
					curTable = x[1]
				}
			}
			if !has {
				kv = append(kv, [2]uint32{1, curTable})
			}
		}
		ctl.Ops = append(ctl.Ops, Op{Kind: "settings", Settings: kv, Pad: -1, TableSize: -1})
		if r.Intn(3) == 0 {
			ctl.Ops = append(ctl.Ops, Op{Kind: "ping", Pad: -1, TableSize: -1})
		}
	}
	p.Lanes = append(p.Lanes, ctl)
	// a last request after all the SETTINGS were sent and acknowledged traffic settled
	last := simpleGet(r, len(p.Lanes), &Resp{Status: 200, ErrAt: -1, BodyLen: 20000, Mode: "buffered", Fields: []HF{{"x-resp-0", "ok"}, {"x-resp-1", "some value"}}})
	last.After = len(p.Lanes) - 1
	p.Lanes = append(p.Lanes, last)
	p.Trail = "c18"
	p.GateMode = Pick(r, "sched", "open")
	p.Mask = genMask(r)
	p.PoolPol = r.Intn(3)
	p.Strategy = genStrategy(r)
	p.SelSeed = r.Uint64()
	p.Frag = r.Intn(3) == 0
	p.DelayS2C = r.Intn(2) == 0
	return p
}

// GenC18ServerOwn: the server enforces what it advertises itself: a frame one byte over its MAX_FRAME_SIZE.
func GenC18ServerOwn(r *RNG) *SrvPlan {
	p := &SrvPlan{Family: "c18-server-own"}
	p.Srv = SrvCfg{MaxConcurrentStreams: 16, PingInterval: -1, MaxRequestBodySize: 1 << 20}
	// the peer's own advertisement must not matter for what the server accepts
	p.Peer = PeerCfg{InitialWindow: -1, MaxFrameSize: Pick(r, int64(-1), 16384, 65536, 1<<20), HeaderTableSize: -1, AutoWindow: true, ConnWindowBoost: 1 << 24}
	over := Pick(r, 16385, 16385, 20000, 65536)
	kind := Pick(r, "data", "data-first", "headers", "ping-like")
	p.Trail = fmt.Sprintf("own-max-frame/%s/peer=%d", kind, p.Peer.MaxFrameSize)
	rid := 0
	hd := Op{Kind: "headers", Fields: []HF{{":method", "POST"}, {":scheme", "https"}, {":path", "/big"}, {":authority", "example.com"}, {"x-rid", "0"}}, Pad: -1, TableSize: -1}
	l := Lane{Name: "oversized", OpensStream: true, After: -1, Offender: "oversized-" + kind, Resp: &Resp{Status: 200, Mode: "buffered", BodyLen: 1, ErrAt: -1}}
	switch kind {
	case "data", "data-first":
		l.Ops = []Op{hd, {Kind: "raw", RawType: FData, RawFlags: 1, RawLen: over, Pad: -1, TableSize: -1}}
	case "headers":
		// a HEADERS frame whose (valid) block is padded beyond the limit
		l.Ops = []Op{{Kind: "raw", RawType: FHeaders, RawFlags: 0x4 | 0x1 | 0x8, RawHex: fmt.Sprintf("%02x", 255) + "828784" + strings.Repeat("00", 255) + strings.Repeat("00", 0), Pad: -1, TableSize: -1}}
		l.Ops[0].RawHex = "" // built below: pad length byte + block + padding, total over the limit
		blk := "828784410161"
		padLen := 255
		body := fmt.Sprintf("%02x", padLen) + blk + strings.Repeat("00", padLen)
		// PRIORITY-less HEADERS cannot exceed 16 KiB with 255 bytes of padding; use an unknown frame type instead
		_ = body
		l.Ops = []Op{{Kind: "raw", RawType: 0xfa, RawFlags: 0, RawLen: over, StreamRef: -1, Pad: -1, TableSize: -1}}
	case "ping-like":
		l.Ops = []Op{{Kind: "raw", RawType: FWindowUpdate, RawFlags: 0, RawLen: over, StreamRef: -1, Pad: -1, TableSize: -1}}
	}
	if kind == "data" {
		// a well-formed request first, so that the oversized frame is not the first frame after SETTINGS
		first := simpleGet(r, 0, &Resp{Status: 200, ErrAt: -1, BodyLen: 10, Mode: "buffered"})
		p.Lanes = append(p.Lanes, first)
		rid = 1
		l.After = 0
		l.AfterResp = true
		hd.Fields[4] = HF{"x-rid", "1"}
		l.Ops[0] = hd
	}
	_ = rid
	p.Lanes = append(p.Lanes, l)
	p.GateMode = "open"
	p.Mask = genMask(r)
	p.Strategy = genStrategy(r)
	p.SelSeed = r.Uint64()
	return p
}

func c18ServerOnline(w *SrvWorld) *Violation {
	if w.FrameSizeViol != nil {
		return w.FrameSizeViol
	}
	return w.AckViol
}

func c18ServerFinal(w *SrvWorld) *Violation {
	if v := c18ServerOnline(w); v != nil {
		return v
	}
	if strings.HasPrefix(w.plan.Trail, "own-max-frame") {
		// the oversized frame must have been refused: FRAME_SIZE_ERROR (GOAWAY, or RST_STREAM for DATA), never served
		for _, g := range w.GoAways {
			if g.Code == cFrameSize {
				return nil
			}
		}
		for _, ps := range w.Streams {
			for _, c := range ps.RST {
				if c == cFrameSize {
					return nil
				}
			}
		}
		// closing the connection without serving the frame is enforcement too
		if (w.PeerEOF || w.Returned) && w.Entries[len(w.lanes)-1] == 0 {
			return nil
		}
		what := "nothing"
		if len(w.GoAways) > 0 {
			what = fmt.Sprintf("GOAWAY(code=%d, %.60q)", w.GoAways[0].Code, w.GoAways[0].Debug)
		} else if w.Entries[len(w.lanes)-1] > 0 {
			what = "the request was served"
		}
		return &Violation{Property: "C18", Rule: "own-max-frame-not-enforced", Sig: "own-max-frame-not-enforced/" + strings.SplitN(w.plan.Trail, "/", 3)[1],
			Detail: fmt.Sprintf("the server advertises SETTINGS_MAX_FRAME_SIZE=16384 but a larger frame drew %s (%s)", what, w.plan.Trail)}
	}
	// invalid values are C10's business; here every SETTINGS is valid: ACK count = SETTINGS count, nothing torn down
	for _, g := range w.GoAways {
		return &Violation{Property: "C18", Rule: "goaway-on-valid-settings", Sig: fmt.Sprintf("goaway-on-valid-settings/code=%d/%s", g.Code, normMsg(g.Debug)),
			Detail: fmt.Sprintf("GOAWAY(code=%d, %.80q) although every SETTINGS value sent was valid", g.Code, g.Debug)}
	}
	if w.SettingsAcks != w.SettingsSentByPeer {
		return &Violation{Property: "C18", Rule: "ack-count", Sig: "ack-count", Detail: fmt.Sprintf("%d SETTINGS sent, %d ACKs received at quiescence", w.SettingsSentByPeer, w.SettingsAcks)}
	}
	if w.PingAcks != w.PingsSent {
		return &Violation{Property: "C18", Rule: "ping-ack-count", Sig: "ping-ack-count", Detail: fmt.Sprintf("%d PINGs sent, %d ACKs received", w.PingsSent, w.PingAcks)}
	}
	for i, l := range w.lanes {
		if l.lane.Req == nil {
			continue
		}
		ps := w.Streams[l.id]
		if ps != nil && ps.DecodeErr != "" {
			return &Violation{Property: "C18", Rule: "hpack-table-size", Sig: "hpack-table-size/" + normMsg([]byte(ps.DecodeErr)),
				Detail: fmt.Sprintf("response %d: an x/net decoder limited to the advertised SETTINGS_HEADER_TABLE_SIZE rejects the header block: %s", i, ps.DecodeErr)}
		}
		if rule, d := checkResponseSeen(i, l.lane.Resp, ps); rule != "" {
			return &Violation{Property: "C18", Rule: "response", Sig: "response/" + rule, Detail: fmt.Sprintf("request %d: %s", i, d)}
		}
	}
	return nil
}

// c18ServerNontrivial: ≥1 SETTINGS was acknowledged with traffic in flight in the other direction.
func c18ServerNontrivial(w *SrvWorld) bool {
	return w.SettingsAcks >= 2 && len(w.Streams) > 0
}
