package harness

import (
	"encoding/json"
	"fmt"
	"os"
	"runtime"
	"strconv"
	"strings"
	"sync/atomic"
	"testing"
	"time"
)

// Family describes how to generate and run one kind of simulated run.
type Family struct {
	Prop string
	Name string
	// Weight among the families of a property in search mode
	Weight int
	Gen    func(r *RNG) any
	Run    func(plan any, tape *Tape, searchSeed uint64) *RunResult
	// Decode a plan from a replay file
	Decode func(b json.RawMessage) (any, error)
}

var families = map[string][]*Family{}

func register(f *Family) { families[f.Prop] = append(families[f.Prop], f) }

func srvFamily(prop, name string, weight int, gen func(*RNG) *SrvPlan, online func(*SrvWorld) *Violation, final func(*SrvWorld) *Violation, post func(*SrvWorld, *RunResult)) *Family {
	return &Family{Prop: prop, Name: name, Weight: weight,
		Gen: func(r *RNG) any { p := gen(r); p.Family = name; return p },
		Run: func(plan any, tape *Tape, ss uint64) *RunResult {
			return RunSrv(plan.(*SrvPlan), tape, ss, prop, online, final, post)
		},
		Decode: func(b json.RawMessage) (any, error) {
			p := &SrvPlan{}
			err := json.Unmarshal(b, p)
			return p, err
		},
	}
}

func lifeFamily(prop, name string, weight int, gen func(*RNG) *SrvPlan, online func(*SrvWorld) *Violation, final func(*SrvWorld, *LifeReport) *Violation, post func(*SrvWorld, *RunResult)) *Family {
	return &Family{Prop: prop, Name: name, Weight: weight,
		Gen: func(r *RNG) any { p := gen(r); p.Family = name; return p },
		Run: func(plan any, tape *Tape, ss uint64) *RunResult {
			return RunSrvLife(plan.(*SrvPlan), tape, ss, prop, online, final, post)
		},
		Decode: func(b json.RawMessage) (any, error) {
			p := &SrvPlan{}
			err := json.Unmarshal(b, p)
			return p, err
		},
	}
}

// registerC19 wraps the listed families: same plans, same runs, but the verdict is the race detector's and the pool tracker's.
func registerC19() {
	for _, src := range c19Sources {
		base := familyByName(src.prop, src.name)
		if base == nil {
			panic("c19: no family " + src.prop + "/" + src.name)
		}
		register(&Family{Prop: "C19", Name: "c19:" + src.name, Weight: src.weight,
			Gen: base.Gen,
			Run: func(plan any, tape *Tape, ss uint64) *RunResult {
				res := base.Run(plan, tape, ss)
				res.Property = "C19"
				res.Family = "c19:" + base.Name
				res.Viol, res.Extra = nil, nil
				if res.Stuck != "" && !strings.HasPrefix(res.Stuck, "run crashed") {
					res.Stuck = "" // budget exhaustion of a wrapped run is not C19's business
				}
				vs := append(poolViolations(res), newRaceViolations()...)
				if len(vs) > 0 {
					res.Viol = vs[0]
					res.Extra = vs[1:]
				}
				res.Nontrivial = res.Switches > 10
				return res
			},
			Decode: base.Decode,
		})
	}
}

func cliFamily(prop, name string, weight int, gen func(*RNG) *CliPlan, online func(*CliWorld) *Violation, final func(*CliWorld) *Violation, post func(*CliWorld, *RunResult)) *Family {
	return &Family{Prop: prop, Name: name, Weight: weight,
		Gen: func(r *RNG) any { p := gen(r); p.Family = name; return p },
		Run: func(plan any, tape *Tape, ss uint64) *RunResult {
			return RunCli(plan.(*CliPlan), tape, ss, prop, online, final, post)
		},
		Decode: func(b json.RawMessage) (any, error) {
			p := &CliPlan{}
			err := json.Unmarshal(b, p)
			return p, err
		},
	}
}

func init() {
	register(&Family{Prop: "C12", Name: "c12", Weight: 1,
		Gen: func(r *RNG) any { return GenC12(r) },
		Run: func(plan any, tape *Tape, ss uint64) *RunResult {
			return RunCliLate(plan.(*CliPlan), tape, ss, "C12", nil, nil, c12Late, func(w *CliWorld, r *RunResult) { r.Nontrivial = c12Nontrivial(w) })
		},
		Decode: func(b json.RawMessage) (any, error) { p := &CliPlan{}; return p, json.Unmarshal(b, p) },
	})
	register(srvFamily("C18", "c18-server", 3, GenC18Server, c18ServerOnline, c18ServerFinal,
		func(w *SrvWorld, r *RunResult) { r.Nontrivial = c18ServerNontrivial(w) }))
	register(srvFamily("C18", "c18-server-all", 3, GenC18ServerAll, c18ServerOnline, c18ServerFinal,
		func(w *SrvWorld, r *RunResult) { r.Nontrivial = c18ServerNontrivial(w) }))
	register(srvFamily("C18", "c18-server-own", 1, GenC18ServerOwn, c18ServerOnline, c18ServerFinal,
		func(w *SrvWorld, r *RunResult) { r.Nontrivial = len(w.Frames) > 2 }))
	register(cliFamily("C18", "c18-client", 2, GenC18Client, c18ClientOnline, c18ClientFinal,
		func(w *CliWorld, r *RunResult) { r.Nontrivial = c18ClientNontrivial(w) }))
	register(cliFamily("C18", "c18-client-bad", 1, GenC18ClientBad, c18ClientOnline, c18ClientFinal,
		func(w *CliWorld, r *RunResult) { r.Nontrivial = len(w.Streams) > 0 }))
	register(cliFamily("C14", "c14-client", 2, GenC14Client, c14ClientOnline, c14ClientFinal,
		func(w *CliWorld, r *RunResult) { r.Nontrivial = c14ClientNontrivial(w) }))
	register(cliFamily("C14", "c14-client-cancel", 1, GenC14ClientCancel, c14ClientOnline, c14ClientFinal,
		func(w *CliWorld, r *RunResult) { r.Nontrivial = c14ClientNontrivial(w) }))
	register(cliFamily("C14", "c14-client-cancel-ends", 1, GenC14ClientCancelEnds, c14ClientOnline, c14ClientFinal,
		func(w *CliWorld, r *RunResult) { r.Nontrivial = c14ClientNontrivial(w) }))
	register(cliFamily("C14", "c14-client-stall", 1, GenC14ClientStall, c14ClientOnline, c14ClientFinal,
		func(w *CliWorld, r *RunResult) { r.Nontrivial = c14ClientNontrivial(w) }))
	register(cliFamily("C14", "c14-client-pad-empty", 1, GenC14ClientPadEmpty, c14ClientOnline, c14ClientFinal,
		func(w *CliWorld, r *RunResult) { r.Nontrivial = c14ClientNontrivial(w) }))
	register(&Family{Prop: "C08", Name: "c08-all", Weight: 3,
		Gen:    func(r *RNG) any { p := GenC08All(r); p.Family = "c08-all"; return p },
		Run:    func(plan any, tape *Tape, ss uint64) *RunResult { return RunC08(plan.(*SrvPlan), tape, ss) },
		Decode: func(b json.RawMessage) (any, error) { p := &SrvPlan{}; return p, json.Unmarshal(b, p) },
	})
	register(&Family{Prop: "C08", Name: "c08", Weight: 3,
		Gen:    func(r *RNG) any { return GenC08(r) },
		Run:    func(plan any, tape *Tape, ss uint64) *RunResult { return RunC08(plan.(*SrvPlan), tape, ss) },
		Decode: func(b json.RawMessage) (any, error) { p := &SrvPlan{}; return p, json.Unmarshal(b, p) },
	})
	register(&Family{Prop: "C16", Name: "c16", Weight: 1,
		Gen:    func(r *RNG) any { return GenC16(r) },
		Run:    func(plan any, tape *Tape, ss uint64) *RunResult { return RunC16(plan.(*C16Plan)) },
		Decode: func(b json.RawMessage) (any, error) { p := &C16Plan{}; return p, json.Unmarshal(b, p) },
	})
	register(&Family{Prop: "C11", Name: "c11-stalled", Weight: 1,
		Gen:    func(r *RNG) any { return GenC11Stalled(r) },
		Run:    func(plan any, tape *Tape, ss uint64) *RunResult { return RunC11(plan.(*C11Plan), tape, ss) },
		Decode: func(b json.RawMessage) (any, error) { p := &C11Plan{}; return p, json.Unmarshal(b, p) },
	})
	register(&Family{Prop: "C11", Name: "c11-timed", Weight: 1,
		Gen:    func(r *RNG) any { return GenC11Timed(r) },
		Run:    func(plan any, tape *Tape, ss uint64) *RunResult { return RunC11(plan.(*C11Plan), tape, ss) },
		Decode: func(b json.RawMessage) (any, error) { p := &C11Plan{}; return p, json.Unmarshal(b, p) },
	})
	register(&Family{Prop: "C11", Name: "c11-many-timeouts", Weight: 1,
		Gen:    func(r *RNG) any { return GenC11ManyTimeouts(r) },
		Run:    func(plan any, tape *Tape, ss uint64) *RunResult { return RunC11(plan.(*C11Plan), tape, ss) },
		Decode: func(b json.RawMessage) (any, error) { p := &C11Plan{}; return p, json.Unmarshal(b, p) },
	})
	register(&Family{Prop: "C11", Name: "c11", Weight: 5,
		Gen:    func(r *RNG) any { return GenC11(r) },
		Run:    func(plan any, tape *Tape, ss uint64) *RunResult { return RunC11(plan.(*C11Plan), tape, ss) },
		Decode: func(b json.RawMessage) (any, error) { p := &C11Plan{}; return p, json.Unmarshal(b, p) },
	})
	register(cliFamily("C07", "c07", 1, GenC07, c07Online, c07Final,
		func(w *CliWorld, r *RunResult) { r.Nontrivial = c07Nontrivial(w) }))
	register(cliFamily("C02", "c02-split", 3, GenC02Split, nil, func(w *CliWorld) *Violation { return c02Final(w, "C02") },
		func(w *CliWorld, r *RunResult) { r.Nontrivial = c02Nontrivial(w) }))
	register(cliFamily("C02", "c02", 4, GenC02, nil, func(w *CliWorld) *Violation { return c02Final(w, "C02") },
		func(w *CliWorld, r *RunResult) { r.Nontrivial = c02Nontrivial(w) }))
	register(srvFamily("C14", "c14-server", 2, GenC14, c14Online, c14Final,
		func(w *SrvWorld, r *RunResult) { r.Nontrivial = c14Nontrivial(w) }))
	register(srvFamily("C14", "c14-server-padded", 1, GenC14Padded, c14Online, c14Final,
		func(w *SrvWorld, r *RunResult) { r.Nontrivial = c14Nontrivial(w) }))
	register(srvFamily("C14", "c14-server-refused", 1, GenC14Refused, c14Online, c14Final,
		func(w *SrvWorld, r *RunResult) { r.Nontrivial = true }))
	register(&Family{Prop: "C13", Name: "c13", Weight: 1,
		Gen: func(r *RNG) any { return GenC13(r) },
		Run: func(plan any, tape *Tape, ss uint64) *RunResult {
			return RunSrvQ(plan.(*SrvPlan), tape, ss, "C13", c13Online, c13AtQuiescence, nil, func(w *SrvWorld, r *RunResult) { r.Nontrivial = c13Nontrivial(w) })
		},
		Decode: func(b json.RawMessage) (any, error) { p := &SrvPlan{}; return p, json.Unmarshal(b, p) },
	})
	register(lifeFamily("C10", "c10", 4, GenC10, nil, c10Final,
		func(w *SrvWorld, r *RunResult) { r.Nontrivial = c10Nontrivial(w) }))
	register(lifeFamily("C10", "c10-idle", 1, GenC10Idle, nil, c10Final,
		func(w *SrvWorld, r *RunResult) { r.Nontrivial = c10Nontrivial(w) }))
	register(lifeFamily("C17", "c17-idle-burst", 1, GenC17IdleBurst, nil, c17Final,
		func(w *SrvWorld, r *RunResult) { r.Nontrivial = c17Nontrivial(w) }))
	register(lifeFamily("C17", "c17-many-handlers", 1, GenC17ManyHandlers, nil, c17Final,
		func(w *SrvWorld, r *RunResult) { r.Nontrivial = c17Nontrivial(w) }))
	register(lifeFamily("C17", "c17", 4, GenC17, nil, c17Final,
		func(w *SrvWorld, r *RunResult) { r.Nontrivial = c17Nontrivial(w) }))
	register(srvFamily("C01", "c01", 1, GenC01, c01Online,
		func(w *SrvWorld) *Violation { return c01Final(w, "C01") },
		func(w *SrvWorld, r *RunResult) { r.Nontrivial = c01Nontrivial(w) }))
	register(srvFamily("C09", "c09", 5, GenC09, c09Online, c09Final,
		func(w *SrvWorld, r *RunResult) { r.Nontrivial = c09Nontrivial(w) }))
	register(srvFamily("C09", "c09-all", 5, GenC09All, c09Online, c09Final,
		func(w *SrvWorld, r *RunResult) { r.Nontrivial = c09Nontrivial(w) }))
	register(lifeFamily("C09", "c09-timeout", 2, GenC09Timeout, c01Online, c09TimeoutFinal,
		func(w *SrvWorld, r *RunResult) { r.Nontrivial = c09Nontrivial(w) }))
	register(srvFamily("C06", "c06", 1, GenC06, c06Online, c06Final,
		func(w *SrvWorld, r *RunResult) { r.Nontrivial = c06Nontrivial(w) }))
	registerC19()
}

// Replay is the on-disk form of one run.
type Replay struct {
	Property  string          `json:"property"`
	Family    string          `json:"family"`
	Seed      uint64          `json:"seed"`
	Run       int             `json:"run"`
	Sig       string          `json:"signature,omitempty"`
	Detail    string          `json:"detail,omitempty"`
	Plan      json.RawMessage `json:"plan"`
	Tape      []uint32        `json:"tape"`
	Trace     []string        `json:"trace,omitempty"`
	TraceHash uint64          `json:"trace_hash,omitempty"`
	// Regen: no plan/tape stored; the run is regenerated from (seed, run), which is deterministic.
	// Used for runs that kill the worker process (unrecovered panic on a goroutine of the system).
	Regen bool `json:"regen,omitempty"`
}

func pickFamily(prop string, r *RNG) *Family {
	if name := os.Getenv("VERIF_FAMILY"); name != "" {
		// development aid: all runs from one family
		if f := familyByName(prop, name); f != nil {
			return f
		}
	}
	fs := families[prop]
	tot := 0
	for _, f := range fs {
		tot += f.Weight
	}
	x := r.Intn(tot)
	for _, f := range fs {
		x -= f.Weight
		if x < 0 {
			return f
		}
	}
	return fs[0]
}

func familyByName(prop, name string) *Family {
	for _, f := range families[prop] {
		if f.Name == name {
			return f
		}
	}
	return nil
}

func watchdog(limit time.Duration, what *atomic.Value) {
	last := atomic.LoadInt64(&heartbeat)
	lastChange := time.Now()
	for {
		time.Sleep(500 * time.Millisecond)
		cur := atomic.LoadInt64(&heartbeat)
		if cur != last {
			last = cur
			lastChange = time.Now()
			continue
		}
		if time.Since(lastChange) > limit {
			fmt.Fprintf(os.Stderr, "WATCHDOG: no scheduler progress for %v during %v\n", limit, what.Load())
			buf := make([]byte, 1<<20)
			n := runtimeStack(buf)
			os.Stderr.Write(buf[:n])
			os.Exit(3)
		}
	}
}

// oneRun generates (or decodes) and executes a single run inside its own bubble.
func oneRun(t *testing.T, prop string, seed uint64, run int, rp *Replay) (*RunResult, any, *Family) {
	var fam *Family
	var plan any
	var tape *Tape
	rs := Mix(seed, uint64(run))
	if rp != nil && rp.Regen {
		prop, seed, run = rp.Property, rp.Seed, rp.Run
		rs = Mix(seed, uint64(run))
		rp = nil
	}
	if rp != nil {
		fam = familyByName(rp.Property, rp.Family)
		if fam == nil {
			t.Fatalf("unknown family %s/%s", rp.Property, rp.Family)
		}
		var err error
		plan, err = fam.Decode(rp.Plan)
		if err != nil {
			t.Fatalf("bad plan: %v", err)
		}
		tape = NewReplayTape(rp.Tape)
	} else {
		r := NewRNG(rs)
		fam = pickFamily(prop, r)
		plan = fam.Gen(r)
		tape = NewSearchTape(rs)
	}
	var res *RunResult
	leaked, crashed := InBubble(t, func() {
		res = fam.Run(plan, tape, Mix(rs, 0x5C4ED))
	})
	if res == nil {
		res = &RunResult{Property: prop, Family: fam.Name, Stuck: "run crashed: " + crashed}
	} else if crashed != "" {
		res.Stuck = "bubble crashed: " + crashed
	}
	_ = leaked
	res.Seed = seed
	res.Run = run
	return res, plan, fam
}

func envInt(name string, def int) int {
	if v := os.Getenv(name); v != "" {
		n, err := strconv.Atoi(v)
		if err == nil {
			return n
		}
	}
	return def
}

// TestWorker is the entry point the driver runs in each worker process.
//
//	VERIF_PROP   property id           VERIF_SEED  base seed
//	VERIF_FROM/VERIF_TO  run index range   VERIF_OUT  result file (JSON lines)
//	VERIF_BUDGET_S  wall-clock budget      VERIF_REPLAY  replay file (run exactly that)
func TestWorker(t *testing.T) {
	prop := os.Getenv("VERIF_PROP")
	if prop == "" {
		t.Skip("VERIF_PROP not set")
	}
	var what atomic.Value
	what.Store("startup")
	go watchdog(60*time.Second, &what) // generous: on a machine loaded several times over, a worker can go without CPU for a long time
	seed := uint64(envInt("VERIF_SEED", 1))
	from, to := envInt("VERIF_FROM", 0), envInt("VERIF_TO", 100)
	budget := time.Duration(envInt("VERIF_BUDGET_S", 3600)) * time.Second
	out := os.Stdout
	if p := os.Getenv("VERIF_OUT"); p != "" {
		// appended to: a worker that has grown too large hands over to a fresh process (see below)
		f, err := os.OpenFile(p, os.O_CREATE|os.O_WRONLY|os.O_APPEND, 0o644)
		if err != nil {
			t.Fatal(err)
		}
		defer f.Close()
		out = f
	}
	enc := json.NewEncoder(out)
	start := time.Now()
	if in := os.Getenv("VERIF_SHRINK"); in != "" {
		b, err := os.ReadFile(in)
		if err != nil {
			t.Fatal(err)
		}
		rp := &Replay{}
		if err := json.Unmarshal(b, rp); err != nil {
			t.Fatal(err)
		}
		what.Store("shrink " + in)
		small, attempts := Shrink(t, rp, time.Duration(envInt("VERIF_SHRINK_S", 60))*time.Second, envInt("VERIF_SHRINK_ATTEMPTS", 600))
		ob, _ := json.MarshalIndent(small, "", " ")
		if err := os.WriteFile(os.Getenv("VERIF_SHRINK_OUT"), ob, 0o644); err != nil {
			t.Fatal(err)
		}
		fmt.Fprintf(out, "{\"shrink_attempts\":%d,\"tape_before\":%d,\"tape_after\":%d}\n", attempts, len(rp.Tape), len(small.Tape))
		return
	}
	if rpPath := os.Getenv("VERIF_REPLAY"); rpPath != "" {
		b, err := os.ReadFile(rpPath)
		if err != nil {
			t.Fatal(err)
		}
		rp := &Replay{}
		if err := json.Unmarshal(b, rp); err != nil {
			t.Fatal(err)
		}
		what.Store("replay " + rpPath)
		res, _, _ := oneRun(t, rp.Property, rp.Seed, rp.Run, rp)
		enc.Encode(res)
		return
	}
	sampled := false
	stride := envInt("VERIF_STRIDE", 1)
	memLimit := uint64(envInt("VERIF_MEM_LIMIT_MB", 1500)) << 20
	lastMem := time.Now()
	for run := from; run < to && time.Since(start) < budget; run += stride {
		// Goroutines a run leaves behind (handlers that are never released, timers that never fire) stay parked for the
		// life of the process, with everything they refer to. Over ten minutes that is gigabytes: when the process has
		// grown past the limit it says where it stopped and ends; the driver starts a fresh one from there.
		if cur := os.Getenv("VERIF_CUR"); cur != "" && ((run-from)/stride%50 == 49 || time.Since(lastMem) > 2*time.Second) {
			lastMem = time.Now()
			var ms runtime.MemStats
			runtime.ReadMemStats(&ms)
			if ms.Sys > memLimit {
				os.WriteFile(cur+".next", []byte(strconv.Itoa(run)), 0o644)
				return
			}
		}
		what.Store(fmt.Sprintf("%s seed=%d run=%d", prop, seed, run))
		atomic.AddInt64(&heartbeat, 1)
		if cur := os.Getenv("VERIF_CUR"); cur != "" {
			os.WriteFile(cur, []byte(fmt.Sprintf("{\"property\":%q,\"seed\":%d,\"run\":%d,\"regen\":true}", prop, seed, run)), 0o644)
		}
		res, plan, fam := oneRun(t, prop, seed, run, nil)
		keepTrace := res.Viol != nil || res.Stuck != "" || os.Getenv("VERIF_TRACE") != ""
		if res.Viol != nil || res.Stuck != "" {
			pb, _ := json.Marshal(plan)
			rp := &Replay{Property: prop, Family: fam.Name, Seed: seed, Run: run, Plan: pb, Tape: res.Tape, Trace: res.Trace, TraceHash: res.TraceHash}
			if res.Viol != nil {
				rp.Sig = res.Viol.Sig
				rp.Detail = res.Viol.Detail
			} else {
				rp.Sig = "STUCK"
				rp.Detail = res.Stuck
			}
			if dir := os.Getenv("VERIF_REPLAY_DIR"); dir != "" {
				name := fmt.Sprintf("%s/%s-%d-%d.json", dir, prop, seed, run)
				b, _ := json.MarshalIndent(rp, "", " ")
				os.WriteFile(name, b, 0o644)
			}
		}
		if os.Getenv("VERIF_SAMPLE") != "" && !sampled && res.Nontrivial && res.Viol == nil {
			sampled = true
			pb, _ := json.Marshal(plan)
			tr := res.Trace
			if len(tr) > 80 {
				tr = tr[:80]
			}
			var praw any = json.RawMessage(pb)
			if len(pb) > 16384 {
				// plans that carry megabyte bodies would make the evidence file unreadable
				praw = map[string]any{"plan_bytes": len(pb), "plan_head": string(pb[:4096])}
			}
			res.Sample = &Sample{PlanRaw: praw, Trace: tr, Summary: res.Summary}
		}
		if !keepTrace {
			res.Trace = nil
		}
		res.Tape = nil
		if err := enc.Encode(res); err != nil {
			t.Fatal(err)
		}
	}
}
