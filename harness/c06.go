package harness

import (
	"fmt"
	"strings"
)

// simpleGet builds a minimal well-formed GET lane whose response is what matters.
func simpleGet(r *RNG, rid int, resp *Resp) Lane {
	req := &Req{Method: "GET", Scheme: "https", Path: fmt.Sprintf("/r/%d", rid), Authority: "example.com", Fields: []HF{{"x-rid", fmt.Sprint(rid)}}}
	fields := []HF{{":method", "GET"}, {":scheme", "https"}, {":path", req.Path}, {":authority", req.Authority}, {"x-rid", fmt.Sprint(rid)}}
	resp.Fields = append(resp.Fields, HF{"x-rid", fmt.Sprint(rid)})
	return Lane{Name: fmt.Sprintf("get%d", rid), Req: req, Resp: resp, OpensStream: true, After: -1,
		Ops: []Op{{Kind: "headers", Fields: fields, Pad: -1, EndStream: true, TableSize: -1}}}
}

// GenC06: responses around and above the peer's windows; window grants and SETTINGS changes as a control lane.
func GenC06(r *RNG) *SrvPlan {
	p := &SrvPlan{Family: "c06"}
	p.Srv = SrvCfg{MaxConcurrentStreams: 16, PingInterval: -1}
	iw := Pick(r, int64(0), 1, 100, 1000, 16384, 65535, 65535, 200000)
	p.Peer = PeerCfg{InitialWindow: iw, MaxFrameSize: Pick(r, int64(-1), 16384, 20000, 1<<20), HeaderTableSize: -1, AutoWindow: false, DrainGrants: true,
		ConnWindowBoost: Pick(r, uint32(0), 0, 1000, 100000), LinkCap: Pick(r, 0, 0, 65536)}
	n := 1 + r.Intn(5)
	sizes := []int{0, 1, 99, 100, 101, 1000, 16383, 16384, 16385, 65535, 65536, 70000, 140000, 300000}
	for i := 0; i < n; i++ {
		resp := &Resp{Status: 200, ErrAt: -1, BodyLen: Pick(r, sizes...), Mode: Pick(r, "buffered", "buffered", "stream-declared", "stream-unknown")}
		if resp.Mode != "buffered" {
			if r.Intn(2) == 0 {
				// short reads, but never so short that one body costs more than ~300 frames
				resp.ReadSizes = []int{max(1+r.Intn(30000), resp.BodyLen/300)}
			}
			resp.EOFWithData = r.Intn(2) == 0
		}
		p.Lanes = append(p.Lanes, simpleGet(r, i, resp))
	}
	// control lane: grants and settings changes, interleaved with response progress by the scheduler
	ctl := Lane{Name: "ctl", After: -1}
	k := r.Intn(10)
	for j := 0; j < k; j++ {
		switch r.Intn(6) {
		case 0, 1:
			ctl.Ops = append(ctl.Ops, Op{Kind: "wupd", OnConn: true, Incr: uint32(Pick(r, 1, 100, 16384, 65535, 1<<20)), Pad: -1, TableSize: -1})
		case 2, 3:
			ctl.Ops = append(ctl.Ops, Op{Kind: "wupd", LaneRef: 1 + r.Intn(n), Incr: uint32(Pick(r, 1, 100, 16384, 65535, 1<<20)), Pad: -1, TableSize: -1})
		case 4:
			ctl.Ops = append(ctl.Ops, Op{Kind: "settings", Settings: [][2]uint32{{4, uint32(Pick(r, 0, 1, 10, 5000, 65535, 100000, 1<<20))}}, Pad: -1, TableSize: -1})
		case 5:
			ctl.Ops = append(ctl.Ops, Op{Kind: "settings", Settings: [][2]uint32{{5, uint32(Pick(r, 16384, 16385, 65536))}}, Pad: -1, TableSize: -1})
		}
	}
	p.Lanes = append(p.Lanes, ctl)
	p.GateMode = Pick(r, "sched", "open")
	p.Mask = genMask(r)
	p.PoolPol = r.Intn(3)
	p.Strategy = genStrategy(r)
	p.SelSeed = r.Uint64()
	p.Frag = r.Intn(3) == 0
	p.DelayS2C = r.Intn(2) == 0
	return p
}

// c06Online reports a ledger violation as soon as it is seen — except the acknowledged-decrease kind,
// which is held back to the end of the run so that a different violation later in the same run wins.
func c06Online(w *SrvWorld) *Violation {
	if w.LedgerViol != nil && strings.HasSuffix(w.LedgerViol.Sig, "/after-acked-decrease") {
		return nil
	}
	return w.LedgerViol
}

// c06Final: with the peer granting everything in the drain phase, every response must have completed, exactly.
func c06Final(w *SrvWorld) *Violation {
	if w.LedgerViol != nil {
		return w.LedgerViol
	}
	for i, l := range w.lanes {
		if l.lane.Req == nil {
			continue
		}
		if len(w.GoAways) > 0 {
			g := w.GoAways[0]
			return &Violation{Property: "C06", Rule: "goaway", Sig: fmt.Sprintf("goaway/code=%d", g.Code), Detail: fmt.Sprintf("GOAWAY(code=%d, %q) during a conforming exchange", g.Code, g.Debug)}
		}
		if rule, d := checkResponseSeen(i, l.lane.Resp, w.Streams[l.id]); rule != "" {
			return &Violation{Property: "C06", Rule: "response", Sig: "drain/" + rule, Detail: fmt.Sprintf("request %d (stream %d) at drain quiescence with connection window %d and stream window open: %s", i, l.id, w.connGranted-w.connRecv, d)}
		}
	}
	return nil
}

func c06Nontrivial(w *SrvWorld) bool { return w.Probes["window-bound"] > 0 }
