package harness

import (
	"bytes"
	"crypto/ed25519"
	"crypto/rand"
	"crypto/tls"
	"crypto/x509"
	"crypto/x509/pkix"
	"fmt"
	"math/big"
	"net"
	"sort"
	"strconv"
	"strings"
	"sync"
	"time"

	"github.com/dgrr/http2"
	"github.com/valyala/fasthttp"
	xh2 "golang.org/x/net/http2"
	"golang.org/x/net/http2/hpack"

	"simrt"
)

// ---- C11: the real Client (ConfigureClient / RoundTrip, retry classification) over real crypto/tls on simulated links ----

type C11Req struct {
	Method     string `json:"method"`
	Body       int    `json:"body"`
	StartAfter int    `json:"start_after"`
}

// C11ConnScript is how the scripted server behind the k-th dialled connection behaves.
type C11ConnScript struct {
	GoAwayAfter  int    `json:"goaway_after"` // GOAWAY may be sent once this many request streams were seen (0: never)
	GoAwayLast   int    `json:"goaway_last"`  // -1: 2^31-1; 0: zero; k>0: the id of the k-th stream seen on the connection
	GoAwayCode   uint32 `json:"goaway_code"`
	RefuseNth    int    `json:"refuse_nth"`              // the n-th stream seen is answered with RST_STREAM(REFUSED_STREAM) (0: none)
	StallC2S     bool   `json:"stall_c2s,omitempty"`     // the link towards the server stops delivering at some point and resumes after MaxResponseTime has passed
	GoAwayNotice bool   `json:"goaway_notice,omitempty"` // graceful shutdown: GOAWAY(2^31-1, NO_ERROR) first, the real one later (RFC 7540 6.8)
	KillAfter    int    `json:"kill_after"`              // the connection may be cut once this many streams were seen (0: never)
	Partial      bool   `json:"partial"`                 // responses are sent in two steps
	MaxStreams   int64  `json:"max_streams"`
	Silent       bool   `json:"silent"` // never answers (MaxResponseTime must end the requests)
	// StallAfterReqs: once that many request streams have arrived the server stops reading for good, and the link holds
	// next to nothing (the client's next write parks in the transport)
	StallAfterReqs int `json:"stall_after_reqs,omitempty"`
	// GoAwayRBit: the reserved bit in front of last-stream-id is set (a receiver must ignore it, RFC 7540 6.8)
	GoAwayRBit bool `json:"goaway_rbit,omitempty"`
}

type C11Plan struct {
	Family          string          `json:"family"`
	MaxResponseTime time.Duration   `json:"max_response_time"`
	PingInterval    time.Duration   `json:"ping_interval"`
	Reqs            []C11Req        `json:"reqs"`
	Conns           []C11ConnScript `json:"conns"`
	Mask            []string        `json:"mask"`
	PoolPol         int             `json:"pool_policy"`
	Strategy        Strategy        `json:"strategy"`
	SelSeed         uint64          `json:"sel_seed"`
	Frag            bool            `json:"frag"`
	MaxSteps        int             `json:"max_steps"`
}

var (
	c11CertOnce sync.Once
	c11Cert     tls.Certificate
)

func c11Certificate() tls.Certificate {
	c11CertOnce.Do(func() {
		pub, priv, _ := ed25519.GenerateKey(rand.Reader)
		tmpl := &x509.Certificate{SerialNumber: big.NewInt(1), Subject: pkix.Name{CommonName: "example.com"}, DNSNames: []string{"example.com"},
			NotBefore: time.Date(1990, 1, 1, 0, 0, 0, 0, time.UTC), NotAfter: time.Date(2090, 1, 1, 0, 0, 0, 0, time.UTC),
			KeyUsage: x509.KeyUsageDigitalSignature, ExtKeyUsage: []x509.ExtKeyUsage{x509.ExtKeyUsageServerAuth}}
		der, _ := x509.CreateCertificate(rand.Reader, tmpl, tmpl, pub, priv)
		c11Cert = tls.Certificate{Certificate: [][]byte{der}, PrivateKey: priv}
	})
	return c11Cert
}

type c11Attempt struct {
	tag, conn  int
	stream     uint32
	step       int
	dataRecv   int    // request DATA octets the server has received on the stream
	disclaimed string // "" | goaway | refused
	answered   int    // 0 none, 1 headers, 2 complete
	status     int
	afterGA    bool          // the HEADERS reached the server after the client had certainly processed this connection's GOAWAY
	seenNow    time.Duration // fake time at which the HEADERS reached the server
}

type c11Conn struct {
	idx          int
	a2b, b2a     *Dir // wire: client→server, server→client
	cli, srv     *Conn
	rx           []byte // plaintext decrypted by the shim, not yet parsed
	rxSeen       int
	txPending    []byte // plaintext the scripted server wants to send
	txReady      []byte // handed to the shim writer
	txSig        chan struct{}
	fr           FrameReader
	preface      int
	dec          *hpack.Decoder
	decOut       []hpack.HeaderField
	enc          *RefEncoder
	fw           *FrameWriter
	streams      []uint32
	byStream     map[uint32]*c11Attempt
	blocks       map[uint32][]byte
	goAwaySent   bool
	goAwayLast   uint32
	goAwayBytes  int64 // wire offset (b2a.Injected is plaintext-free; see gaDelivered)
	noticeSent   bool
	stalled      bool
	stallDone    bool
	stalledAt    time.Duration
	gaFlushed    bool
	gaProcessed  bool // GOAWAY flushed, every wire byte delivered, and the system was quiescent afterwards
	killed       bool
	killedByPlan bool
	tlsUp        bool
	clientEOF    bool
	script       C11ConnScript
	refusedCount int
}

type c11Caller struct {
	k        int
	started  bool
	done     bool
	results  []c11Result
	finalErr error
	retry    bool
	snap     *RespSnap
	doneStep int
}

type c11Result struct {
	retry    bool
	err      string
	from, to time.Duration // fake time of the call and of its return
}

type c11Event struct {
	kind   string
	k      int
	retry  bool
	err    error
	snap   *RespSnap
	final  bool
	t0, t1 time.Time
}

type C11World struct {
	sim      *Sim
	plan     *C11Plan
	conns    []*c11Conn
	callers  []*c11Caller
	ev       chan c11Event
	hc       *fasthttp.HostClient
	cl       *http2.Client
	cfgDone  bool
	cfgErr   error
	attempts map[int][]*c11Attempt
	Probes   map[string]int
	phase    int
	viol     *Violation
	early    *Violation
	more     []*Violation
	closed   bool
	cfgMu    sync.Mutex
}

func (w *C11World) script(k int) C11ConnScript {
	if len(w.plan.Conns) == 0 {
		return C11ConnScript{MaxStreams: -1}
	}
	if k < len(w.plan.Conns) {
		return w.plan.Conns[k]
	}
	return w.plan.Conns[len(w.plan.Conns)-1]
}

// dial is HostClient.Dial: a fresh simulated link with a TLS server and a scripted HTTP/2 server behind it.
func (w *C11World) dial(addr string) (net.Conn, error) {
	c := &c11Conn{idx: len(w.conns), txSig: make(chan struct{}, 1), preface: len(xh2.ClientPreface), byStream: map[uint32]*c11Attempt{}, blocks: map[uint32][]byte{},
		enc: NewRefEncoder(), fw: NewFrameWriter()}
	c.script = w.script(c.idx)
	c.dec = hpack.NewDecoder(4096, func(f hpack.HeaderField) { c.decOut = append(c.decOut, f) })
	capacity := 0
	if c.script.StallC2S {
		capacity = 16384 // a socket buffer's worth: a write of a large body parks in the transport while the link is held up
	}
	c.a2b, c.b2a = NewDir("a2b"+strconv.Itoa(c.idx), capacity), NewDir("b2a"+strconv.Itoa(c.idx), 0)
	c.cli = &Conn{Name: "cli" + strconv.Itoa(c.idx), R: c.b2a, W: c.a2b}
	c.srv = &Conn{Name: "srv" + strconv.Itoa(c.idx), R: c.a2b, W: c.b2a}
	w.conns = append(w.conns, c)
	w.Probes["dial"]++
	cfg := &tls.Config{Certificates: []tls.Certificate{c11Certificate()}, NextProtos: []string{"h2"}, MinVersion: tls.VersionTLS13, SessionTicketsDisabled: true}
	ts := tls.Server(c.srv, cfg)
	// shim: TLS handshake, then one goroutine decrypts into c.rx, this one encrypts what the scripted server hands over
	name := "shim" + strconv.Itoa(c.idx)
	go func() {
		simrt.GoStart(name)
		defer simrt.GoExit()
		if err := ts.Handshake(); err != nil {
			c.killed = true
			return
		}
		c.tlsUp = true
		go func() {
			simrt.GoStart(name + ".rd")
			defer simrt.GoExit()
			buf := make([]byte, 32768)
			for {
				n, err := ts.Read(buf)
				if n > 0 {
					c.rx = append(c.rx, buf[:n]...)
				}
				if err != nil {
					c.clientEOF = true
					return
				}
			}
		}()
		for {
			wait(c.txSig)
			simrt.NetWoke(name + ".tx")
			if c.killed {
				return
			}
			b := c.txReady
			c.txReady = nil
			if len(b) > 0 {
				if _, err := ts.Write(b); err != nil {
					return
				}
			}
		}
	}()
	return c.cli, nil
}

func NewC11World(sim *Sim, plan *C11Plan) *C11World {
	w := &C11World{sim: sim, plan: plan, ev: make(chan c11Event, 1024), attempts: map[int][]*c11Attempt{}, Probes: map[string]int{}}
	sim.R.Mask = kindMask(plan.Mask)
	sim.R.Pools.Policy = plan.PoolPol
	sim.Strat = plan.Strategy
	sim.SelSeed = plan.SelSeed
	if plan.MaxSteps > 0 {
		sim.MaxSteps = plan.MaxSteps
	}
	for k := range plan.Reqs {
		w.callers = append(w.callers, &c11Caller{k: k})
	}
	w.hc = &fasthttp.HostClient{Addr: "example.com:443", IsTLS: true, TLSConfig: &tls.Config{InsecureSkipVerify: true, MinVersion: tls.VersionTLS13, ClientSessionCache: nil},
		Dial: w.dial}
	ev := w.ev
	simrt.Go("configure", func() {
		err := http2.ConfigureClient(w.hc, http2.ClientOpts{MaxResponseTime: plan.MaxResponseTime, PingInterval: plan.PingInterval})
		appSync(&w.cfgMu) // an application configures its client before it hands it to anybody
		ev <- c11Event{kind: "configured", err: err}
	})
	return w
}

func (w *C11World) startCaller(k int) {
	q := w.plan.Reqs[k]
	ev := w.ev
	simrt.Go("rt"+strconv.Itoa(k), func() {
		appSync(&w.cfgMu)
		idem := q.Method == "GET"
		for attempt := 0; attempt < 3; attempt++ {
			req := &fasthttp.Request{}
			req.SetRequestURI("https://example.com/t/" + strconv.Itoa(k))
			req.Header.SetMethod(q.Method)
			req.Header.Set("x-tag", strconv.Itoa(k))
			if q.Body > 0 {
				req.SetBody(genBody(k, q.Body))
			}
			res := &fasthttp.Response{}
			t0 := time.Now()
			retry, err := w.cl.RoundTrip(w.hc, req, res)
			t1 := time.Now()
			// the request is the caller's again: whatever it does with it now must not reach the wire
			if b := req.Body(); len(b) > 0 {
				for i := range b {
					b[i] = 'Z'
				}
			}
			simrt.UserYield("rt.returned")
			var snap *RespSnap
			if err == nil {
				snap = appSnapResponse(res)
			}
			final := !(retry && idem) || attempt == 2
			ev <- c11Event{kind: "result", k: k, retry: retry, err: err, snap: snap, final: final, t0: t0, t1: t1}
			if final {
				return
			}
		}
	})
}

func (w *C11World) drain() {
	for {
		select {
		case e := <-w.ev:
			switch e.kind {
			case "configured":
				w.cfgDone, w.cfgErr = true, e.err
				if e.err == nil {
					w.cl = http2.ClientFrom(w.hc)
				}
			case "result":
				c := w.callers[e.k]
				es := "nil"
				if e.err != nil {
					es = e.err.Error()
				}
				c.results = append(c.results, c11Result{e.retry, es, e.t0.Sub(w.sim.Start), e.t1.Sub(w.sim.Start)})
				w.sim.Obs("rt " + itoa(e.k) + " retry=" + strconv.FormatBool(e.retry) + " err=" + es)
				w.sim.Logf("RoundTrip %d returned retry=%v err=%s", e.k, e.retry, es)
				if e.final {
					c.done, c.finalErr, c.retry, c.snap, c.doneStep = true, e.err, e.retry, e.snap, w.sim.Steps
				}
			case "closed":
				w.closed = true
			}
		default:
			return
		}
	}
}

func (c *c11Conn) send(b []byte) { c.txPending = append(c.txPending, b...) }

// parse consumes what the shim has decrypted.
func (w *C11World) parse(c *c11Conn) {
	b := c.rx[c.rxSeen:]
	c.rxSeen = len(c.rx)
	if c.preface > 0 && len(b) > 0 {
		n := min(c.preface, len(b))
		c.preface -= n
		b = b[n:]
		if c.preface == 0 {
			var st []xh2.Setting
			if c.script.MaxStreams >= 0 {
				st = append(st, xh2.Setting{ID: xh2.SettingMaxConcurrentStreams, Val: uint32(c.script.MaxStreams)})
			}
			iw, boost := uint32(1<<20), uint32(1<<24)
			if c.script.StallC2S {
				// windows that never hold an upload up: the whole body is handed to the write loop in one piece
				iw, boost = 1<<30, 1<<30
			}
			st = append(st, xh2.Setting{ID: xh2.SettingInitialWindowSize, Val: iw})
			c.send(c.fw.Settings(st...))
			c.send(c.fw.WindowUpdate(0, boost))
		}
	}
	if len(b) > 0 {
		c.fr.Feed(b)
	}
	for {
		f := c.fr.Next()
		if f == nil {
			return
		}
		w.sim.Logf("srv%d<< %s", c.idx, f)
		w.sim.Obs("c" + itoa(c.idx) + " " + f.String())
		switch f.Type {
		case FSettings:
			if !f.Ack {
				c.send(c.fw.SettingsAck())
			}
		case FPing:
			if !f.Ack {
				c.send(c.fw.Ping(true, f.Ping))
			}
		case FHeaders, FContinuation:
			if f.Type == FHeaders {
				c.blocks[f.Stream] = nil
			}
			c.blocks[f.Stream] = append(c.blocks[f.Stream], f.Block...)
			if !f.EndHeaders {
				continue
			}
			c.decOut = c.decOut[:0]
			c.dec.Write(c.blocks[f.Stream])
			c.dec.Close()
			tag := -1
			for _, h := range c.decOut {
				if h.Name == "x-tag" {
					tag, _ = strconv.Atoi(h.Value)
				}
			}
			if _, dup := c.byStream[f.Stream]; dup {
				continue
			}
			a := &c11Attempt{tag: tag, conn: c.idx, stream: f.Stream, step: w.sim.Steps, afterGA: c.gaProcessed, seenNow: w.sim.Now()}
			c.byStream[f.Stream] = a
			c.streams = append(c.streams, f.Stream)
			w.attempts[tag] = append(w.attempts[tag], a)
			if c.goAwaySent && f.Stream > c.goAwayLast {
				a.disclaimed = "goaway"
			}
		case FData:
			if f.Len > 0 {
				c.send(c.fw.WindowUpdate(0, uint32(f.Len)))
			}
			if a := c.byStream[f.Stream]; a != nil {
				a.dataRecv += f.Len
			}
			// callers overwrite their request body with 'Z' as soon as RoundTrip has returned (what handing the request
			// back to a pool amounts to): the body pattern has no 'Z' in it
			if a := c.byStream[f.Stream]; a != nil && bytes.IndexByte(f.Data, 'Z') >= 0 {
				w.more = append(w.more, &Violation{Property: "C11", Rule: "body-read-after-return", Sig: "body-read-after-return",
					Detail: fmt.Sprintf("request %d (connection %d stream %d): DATA on the wire carries bytes the caller wrote into its request body after RoundTrip had returned: the connection went on reading a request it had handed back", a.tag, c.idx, f.Stream)})
			}
		}
	}
}

func (w *C11World) lastID(c *c11Conn) uint32 {
	switch {
	case c.script.GoAwayLast < 0:
		return 1<<31 - 1
	case c.script.GoAwayLast == 0:
		return 0
	}
	k := c.script.GoAwayLast
	if k > len(c.streams) {
		k = len(c.streams)
	}
	return c.streams[k-1]
}

func (w *C11World) EnvActions() []Action {
	w.drain()
	var acts []Action
	for _, c := range w.conns {
		c := c
		if len(c.rx) > c.rxSeen {
			w.parse(c)
		}
		if c.script.StallC2S && !c.stallDone && !c.killed && w.phase == 0 && w.bigUploadInProgress(c) {
			acts = append(acts, Action{Name: "stall c" + itoa(c.idx), Env: true, Weight: 6, Run: func() {
				c.stalled, c.stallDone, c.stalledAt = true, true, w.sim.Now()
				w.Probes["stall-c2s"]++
			}})
		}
		if c.script.StallAfterReqs > 0 && !c.stallDone && !c.killed && w.phase == 0 && len(c.streams) >= c.script.StallAfterReqs {
			acts = append(acts, Action{Name: "stall-for-good c" + itoa(c.idx), Env: true, Weight: 20, Run: func() {
				c.stalled, c.stallDone, c.stalledAt = true, true, w.sim.Now()
				c.a2b.Cap = 64
				w.Probes["stall-c2s-for-good"]++
			}})
		}
		if c.stalled && c.script.StallAfterReqs == 0 && w.phase >= 1 && w.sim.Now() >= c.stalledAt+w.stallFor() {
			acts = append(acts, Action{Name: "unstall c" + itoa(c.idx), Env: true, Weight: 20, Run: func() { c.stalled = false }})
		}
		if n := len(c.a2b.Inflight); n > 0 && !c.a2b.cutDone && !c.stalled {
			acts = append(acts, Action{Name: "wire c" + itoa(c.idx) + " c2s all(" + itoa(n) + ")", Run: func() { c.a2b.Deliver(n) }, Env: true, Weight: 20})
			if w.plan.Frag && n > 1 {
				k := 1 + int(Mix(uint64(w.sim.Steps), uint64(n))%uint64(n-1))
				acts = append(acts, Action{Name: "wire c" + itoa(c.idx) + " c2s " + itoa(k), Run: func() { c.a2b.Deliver(k) }, Env: true, Weight: 8})
			}
		}
		if n := len(c.b2a.Inflight); n > 0 && !c.b2a.cutDone {
			acts = append(acts, Action{Name: "wire c" + itoa(c.idx) + " s2c all(" + itoa(n) + ")", Run: func() { c.b2a.Deliver(n) }, Env: true, Weight: 20})
			if w.plan.Frag && n > 1 {
				k := 1 + int(Mix(uint64(w.sim.Steps), uint64(n))%uint64(n-1))
				acts = append(acts, Action{Name: "wire c" + itoa(c.idx) + " s2c " + itoa(k), Run: func() { c.b2a.Deliver(k) }, Env: true, Weight: 8})
			}
		}
		if len(c.txPending) > 0 && c.tlsUp && len(c.txReady) == 0 && !c.killed {
			acts = append(acts, Action{Name: "flush c" + itoa(c.idx) + "(" + itoa(len(c.txPending)) + ")", Env: true, Weight: 20, Run: func() {
				c.txReady, c.txPending = c.txPending, nil
				if c.goAwaySent {
					c.gaFlushed = true
				}
				poke(c.txSig)
			}})
		}
		if c.killed || c.script.Silent {
			continue
		}
		// GOAWAY
		if c.script.GoAwayAfter > 0 && !c.goAwaySent && len(c.streams) >= c.script.GoAwayAfter {
			acts = append(acts, Action{Name: "goaway c" + itoa(c.idx), Env: true, Weight: 10, Run: func() {
				if c.script.GoAwayNotice && !c.noticeSent {
					c.noticeSent = true
					w.Probes["goaway-notice"]++
					c.send(c.fw.GoAway(1<<31-1, 0, nil))
					return
				}
				c.goAwaySent = true
				c.goAwayLast = w.lastID(c)
				for _, s := range c.streams {
					// above last-stream-id the server has disclaimed the stream, even one it had begun to answer:
					// the statement lets the client end it with an error and send it again
					if s > c.goAwayLast && c.byStream[s].disclaimed == "" {
						c.byStream[s].disclaimed = "goaway"
					}
				}
				w.Probes["goaway"]++
				ga := c.fw.GoAway(c.goAwayLast, c.script.GoAwayCode, nil)
				if c.script.GoAwayRBit {
					ga[9] |= 0x80
					w.Probes["goaway-reserved-bit"]++
				}
				c.send(ga)
			}})
		}
		// answers, refusals
		for i, s := range c.streams {
			a := c.byStream[s]
			s := s
			if a.disclaimed != "" || a.answered == 2 {
				continue
			}
			if c.script.StallC2S && a.tag >= 0 && a.tag < len(w.plan.Reqs) && a.dataRecv < w.plan.Reqs[a.tag].Body {
				continue // on a link that may stall, the server answers an upload once it has all of it
			}
			if c.script.RefuseNth == i+1 && a.answered == 0 {
				acts = append(acts, Action{Name: "refuse c" + itoa(c.idx) + "/" + itoa(s), Env: true, Weight: 10, Run: func() {
					a.disclaimed = "refused"
					w.Probes["refused"]++
					c.send(c.fw.RST(s, 7))
				}})
				continue
			}
			acts = append(acts, Action{Name: "answer c" + itoa(c.idx) + "/" + itoa(s), Env: true, Weight: 10, Run: func() {
				status := 200 + a.tag
				if a.answered == 0 {
					a.status = status
					blk, _ := c.enc.EncodeBlock([]HF{{":status", strconv.Itoa(status)}, {"x-tag", strconv.Itoa(a.tag)}, {"x-conn", strconv.Itoa(c.idx)}}, []Rep{2, 2, 2})
					c.send(c.fw.Headers(s, blk, false, true, -1, false, 0, 0))
					a.answered = 1
					if c.script.Partial {
						return
					}
				}
				c.send(c.fw.Data(s, true, RespBody(a.tag, 100+a.tag), -1))
				a.answered = 2
			}})
		}
		if c.script.KillAfter > 0 && len(c.streams) >= c.script.KillAfter && w.phase == 0 {
			acts = append(acts, Action{Name: "kill c" + itoa(c.idx), Env: true, Weight: 4, Run: func() {
				c.killed = true
				c.killedByPlan = true
				w.Probes["kill"]++
				c.b2a.SetEOF()
				c.a2b.readerClosed = true
				poke(c.a2b.wsig)
				poke(c.txSig)
			}})
		}
	}
	if w.cfgDone && w.cfgErr == nil {
		for _, c := range w.callers {
			if c.started {
				continue
			}
			q := w.plan.Reqs[c.k]
			if q.StartAfter >= 0 && !w.callers[q.StartAfter].done {
				continue
			}
			c := c
			acts = append(acts, Action{Name: "start rt" + itoa(c.k), Env: true, Weight: 12, Run: func() { c.started = true; w.startCaller(c.k) }})
		}
	}
	return acts
}

func (w *C11World) Check() *Violation {
	w.drain()
	return w.viol
}

// atQuiescence is called when nothing is enabled any more and before the clock moves.
func (w *C11World) atQuiescence() *Violation {
	w.drain()
	for _, c := range w.conns {
		if len(c.rx) > c.rxSeen {
			w.parse(c)
		}
		// the client has certainly processed a GOAWAY that was flushed and fully delivered once the system is quiescent
		if c.goAwaySent && c.gaFlushed && len(c.txPending) == 0 && len(c.txReady) == 0 && len(c.b2a.Inflight) == 0 && len(c.a2b.Inflight) == 0 && !c.killed {
			c.gaProcessed = true
		}
	}
	mk := func(rule, sig, d string) *Violation {
		return &Violation{Property: "C11", Rule: rule, Sig: sig, Detail: d}
	}
	for _, c := range w.conns {
		if c.stalled {
			// a request that was failed and sent again may be sitting in the stalled link, invisible to any server:
			// "still waiting" cannot be told from "moved on" at this quiescence
			return nil
		}
	}
	for _, c := range w.conns {
		if !c.gaProcessed {
			continue
		}
		// (b) every caller whose request sits on a stream above last-stream-id must have been failed by now
		for _, s := range c.streams {
			a := c.byStream[s]
			if s <= c.goAwayLast || a.tag < 0 || a.tag >= len(w.callers) {
				continue
			}
			at := w.attempts[a.tag]
			if at[len(at)-1] != a {
				continue // the request has moved on to another attempt
			}
			if cl := w.callers[a.tag]; !cl.done {
				return mk("above-last-id-not-failed", "above-last-id-not-failed/code="+itoa(c.script.GoAwayCode),
					fmt.Sprintf("connection %d: GOAWAY(last-stream-id=%d, code=%d) was delivered and processed, the system is quiescent, but request %d on stream %d is still waiting (it can only end by timeout or when the connection dies)", c.idx, c.goAwayLast, c.script.GoAwayCode, a.tag, s))
			}
		}
	}
	return nil
}

func (w *C11World) final() *Violation {
	var first *Violation
	mk := func(rule, sig, d string) *Violation {
		v := &Violation{Property: "C11", Rule: rule, Sig: sig, Detail: d}
		if first == nil {
			first = v
		} else {
			w.more = append(w.more, v)
		}
		return v
	}
	w.finalRules(mk)
	return first
}

func (w *C11World) finalRules(mk func(rule, sig, d string) *Violation) {
	// (t) "within its configured timeout": a call whose last attempt reached a server that did not disclaim it returns no
	// later than MaxResponseTime after that (the timer is armed before the request is handed to the connection; the
	// clock of this family only moves when everything is quiescent, so a fired timer's effects are complete before
	// the clock moves again). Not judged when the link stalled: a write parked in the transport cannot be called back.
	// (p) MaxResponseTime never ends a request early: a call that returns the timeout error has lasted at least that long
	// (the timer is armed inside the call). A timer left running by an earlier request on the same pooled context
	// would fire early.
	if M := w.plan.MaxResponseTime; M > 0 {
		for k, c := range w.callers {
			for _, r := range c.results {
				if r.err == http2.ErrRequestCanceled.Error() && r.to-r.from < M {
					mk("timeout-premature", "timeout-premature", fmt.Sprintf("RoundTrip for request %d returned %q %v after it was called; MaxResponseTime is %v", k, r.err, r.to-r.from, M))
				}
			}
		}
	}
	if M := w.plan.MaxResponseTime; M > 0 && w.plan.Strategy.TimeRace == 0 {
		for k, c := range w.callers {
			for _, r := range c.results {
				var last *c11Attempt
				for _, a := range w.attempts[k] {
					if a.seenNow >= r.from && a.seenNow <= r.to {
						last = a
					}
				}
				if last == nil || last.disclaimed != "" || w.conns[last.conn].script.StallC2S {
					continue
				}
				if over := r.to - last.seenNow - M; over > 10*time.Millisecond {
					mk("timeout-exceeded", "timeout-exceeded", fmt.Sprintf("RoundTrip for request %d returned (%s) %v after its request had reached the server on connection %d stream %d; MaxResponseTime is %v", k, r.err, r.to-last.seenNow, last.conn, last.stream, M))
				}
			}
		}
	}

	if w.cfgErr != nil {
		mk("configure", "configure", fmt.Sprintf("ConfigureClient failed against a conforming server: %v", w.cfgErr))
		return
	}
	tags := make([]int, 0, len(w.attempts))
	for t := range w.attempts {
		tags = append(tags, t)
	}
	sort.Ints(tags)
	for _, t := range tags {
		at := w.attempts[t]
		// (a) no stream is opened on a connection after its GOAWAY was processed
		for _, a := range at {
			if a.afterGA {
				mk("stream-after-goaway", "stream-after-goaway", fmt.Sprintf("request %d: HEADERS on stream %d of connection %d reached the server after the client had processed that connection's GOAWAY", t, a.stream, a.conn))
			}
		}
		// (d) a request reaches a server again only if every earlier attempt was disclaimed
		// Attempts are listed in the order in which they reached their servers, which need not be the order in which the
		// client sent them (a link may deliver late: seen once in 37 000 runs of the thorough tier, a disclaimed attempt
		// arriving after the retry it had caused). Two attempts that were both left standing are a violation in either
		// order; one standing attempt next to disclaimed ones is what a correct client produces.
		var standing []*c11Attempt
		for _, e := range at {
			if e.disclaimed == "" {
				standing = append(standing, e)
			}
		}
		if len(standing) >= 2 {
			e, f := standing[0], standing[1]
			mk("replayed-undisclaimed", "replayed-undisclaimed/answered="+itoa(e.answered),
				fmt.Sprintf("request %d reached a server twice (connection %d stream %d and connection %d stream %d) and neither attempt was refused or above a GOAWAY's last-stream-id: the server may have processed it twice", t, e.conn, e.stream, f.conn, f.stream))
		}
		if len(standing) == 1 && standing[0] != at[len(at)-1] {
			// the one attempt the server has not disclaimed is the one the answer rules below are about
			at = append(append([]*c11Attempt{}, at...), standing[0])
		}
		if t < 0 || t >= len(w.callers) {
			continue
		}
		c := w.callers[t]
		if !c.done {
			continue
		}
		if c.retry {
			for _, e := range at {
				if e.disclaimed == "" {
					mk("retry-undisclaimed", "retry-undisclaimed", fmt.Sprintf("RoundTrip for request %d returned retry=true (%v) although its attempt on connection %d stream %d reached the server and was not disclaimed", t, c.finalErr, e.conn, e.stream))
				}
			}
		}
		// (c) complete answers on streams at or below last-stream-id are delivered as they were sent
		last := at[len(at)-1]
		// (a kill may have cut the answer on the wire: only connections that were never killed are judged here)
		if last.answered == 2 && last.disclaimed == "" && !w.conns[last.conn].killedByPlan && !w.conns[last.conn].stallDone {
			lateOK := false
			if w.plan.Strategy.TimeRace > 0 && len(c.results) > 0 {
				// the clock of this family moves while the client is at work: an answer that was sent in time may be read too late
				r := c.results[len(c.results)-1]
				lateOK = r.err == http2.ErrRequestCanceled.Error() && r.to-r.from >= w.plan.MaxResponseTime
			}
			if c.finalErr != nil && lateOK {
				w.Probes["timeout-legit"]++
			} else if c.finalErr != nil {
				conn := w.conns[last.conn]
				ga := "no GOAWAY"
				if conn.goAwaySent {
					ga = fmt.Sprintf("GOAWAY(last=%d, code=%d)", conn.goAwayLast, conn.script.GoAwayCode)
				}
				mk("answered-request-failed", "answered-request-failed/goaway="+strconv.FormatBool(conn.goAwaySent),
					fmt.Sprintf("request %d was answered completely on stream %d of connection %d (%s) but RoundTrip returned %q", t, last.stream, last.conn, ga, c.finalErr.Error()))
			} else if c.snap.Status != last.status || string(c.snap.Body) != string(RespBody(t, 100+t)) {
				mk("wrong-response", "wrong-response", fmt.Sprintf("request %d: got status %d and %d body bytes, the server sent status %d and %d bytes on its stream", t, c.snap.Status, len(c.snap.Body), last.status, 100+t))
			}
		}
		if c.finalErr == nil && last.answered != 2 {
			mk("success-without-answer", "success-without-answer", fmt.Sprintf("RoundTrip for request %d returned nil but no server completed an answer for it", t))
		}
	}
	for k, c := range w.callers {
		if c.started && !c.done {
			mk("roundtrip-never-returned", "roundtrip-never-returned", fmt.Sprintf("RoundTrip for request %d has not returned after MaxResponseTime and an hour more; goroutines: %s", k, strings.Join(aliveNames(w.sim), "; ")))
		}
	}
}

func aliveNames(s *Sim) []string {
	var out []string
	for _, n := range s.Alive(false) {
		out = append(out, shortName(n)+" @ "+s.ParkedOn(n))
	}
	return out
}

func GenC11(r *RNG) *C11Plan {
	p := &C11Plan{Family: "c11", MaxResponseTime: Pick(r, time.Duration(-1), time.Second, time.Minute), PingInterval: Pick(r, time.Duration(0), 3*time.Second)}
	n := 2 + r.Intn(5)
	for k := 0; k < n; k++ {
		q := C11Req{Method: Pick(r, "GET", "GET", "POST"), StartAfter: -1}
		if q.Method == "POST" {
			q.Body = Pick(r, 1, 100, 5000, 300000, 300000)
		}
		if k > 0 && r.Intn(4) == 0 {
			q.StartAfter = r.Intn(k)
		}
		p.Reqs = append(p.Reqs, q)
	}
	nc := 1 + r.Intn(3)
	for k := 0; k < nc; k++ {
		s := C11ConnScript{MaxStreams: Pick(r, int64(-1), 100, 2), Partial: r.Intn(2) == 0}
		switch r.Intn(8) {
		case 6, 7:
			// GOAWAY, and the connection is lost at some point after it: what the GOAWAY left standing is cut short
			s.KillAfter = 1 + r.Intn(n)
			fallthrough
		case 0, 1, 2:
			s.GoAwayAfter = 1 + r.Intn(n)
			s.GoAwayLast = Pick(r, -1, 0, 1, 2, 3)
			s.GoAwayCode = uint32(Pick(r, 0, 0, 2, 11))
			s.GoAwayNotice = r.Intn(3) == 0
			s.GoAwayRBit = r.Intn(6) == 0
		case 3:
			s.RefuseNth = 1 + r.Intn(n)
		case 4:
			s.KillAfter = 1 + r.Intn(n)
		case 5:
			// plain conforming server
			s.StallC2S = r.Intn(2) == 0
		}
		if k == nc-1 {
			// the last script repeats for every further connection: keep it benign so that the run ends
			s.GoAwayAfter, s.KillAfter, s.RefuseNth = 0, 0, 0
		}
		p.Conns = append(p.Conns, s)
	}
	p.Mask = genMask(r)
	p.PoolPol = r.Intn(3)
	p.Strategy = genStrategy(r)
	if r.Intn(4) == 0 {
		// the read loop dawdles over a GOAWAY: whoever it wakes gets well ahead of it before it is done
		p.Strategy.Starve = "(Conn.failAbove)|(Conn.readNext)|(Conn.deletePending)"
	}
	p.SelSeed = r.Uint64()
	p.Frag = r.Intn(3) == 0
	p.MaxSteps = 400000
	return p
}

// GenC11Stalled: large uploads on a link that stops delivering in the middle of one and resumes after MaxResponseTime
// has passed. The timeout fires while the write loop is inside the transport with the caller's body; whatever
// RoundTrip then reports, the request is the caller's again the moment it returns, and the callers here overwrite it
// at once.
func GenC11Stalled(r *RNG) *C11Plan {
	p := &C11Plan{Family: "c11-stalled", MaxResponseTime: time.Second, PingInterval: time.Minute}
	n := 1 + r.Intn(2)
	for k := 0; k < n; k++ {
		// larger than the client's write buffer (16 MiB): only then is part of the body still unread, in the caller's
		// memory, while the write loop is parked in the transport
		q := C11Req{Method: "POST", Body: 17 << 20, StartAfter: -1}
		if k > 0 {
			q = C11Req{Method: "GET", StartAfter: -1}
		}
		p.Reqs = append(p.Reqs, q)
	}
	p.Conns = []C11ConnScript{{MaxStreams: 100, StallC2S: true}}
	p.Mask = genMask(r)
	p.PoolPol = r.Intn(3)
	p.Strategy = genStrategy(r)
	p.SelSeed = r.Uint64()
	p.Frag = r.Intn(3) == 0
	p.MaxSteps = 1500000
	return p
}

// GenC11Timed: requests in sequence on pooled contexts while the clock moves in steps well below MaxResponseTime: the
// timeout of one request must not reach the next one.
func GenC11Timed(r *RNG) *C11Plan {
	M := time.Second
	p := &C11Plan{Family: "c11-timed", MaxResponseTime: M, PingInterval: time.Hour}
	n := 4 + r.Intn(7)
	for k := 0; k < n; k++ {
		q := C11Req{Method: Pick(r, "GET", "GET", "POST"), StartAfter: -1}
		if q.Method == "POST" {
			q.Body = Pick(r, 1, 100, 5000)
		}
		if k > 0 && r.Intn(6) != 0 {
			q.StartAfter = k - 1 // one after the other: the context of the earlier call is back in the pool
		}
		p.Reqs = append(p.Reqs, q)
	}
	p.Conns = []C11ConnScript{{MaxStreams: Pick(r, int64(-1), 100), Partial: r.Intn(2) == 0}}
	p.Mask = genMask(r)
	p.PoolPol = r.Intn(3)
	p.Strategy = genStrategy(r)
	p.Strategy.TimeRace = Pick(r, 0.005, 0.01, 0.03)
	p.Strategy.TimeSteps = []time.Duration{M / 4, M / 3, M / 10, M / 2}
	p.SelSeed = r.Uint64()
	p.Frag = r.Intn(3) == 0
	return p
}

// GenC11ManyTimeouts: more requests than the client's queue of outgoing control frames has slots (128) wait on one
// connection for a server that has stopped reading; every one of them has a response timer, and every one has to come
// back when it fires, whatever the state of the queue its RST_STREAM goes into.
func GenC11ManyTimeouts(r *RNG) *C11Plan {
	p := &C11Plan{Family: "c11-many-timeouts", MaxResponseTime: time.Second, PingInterval: time.Hour}
	n := 135 + r.Intn(40)
	for k := 0; k < n; k++ {
		p.Reqs = append(p.Reqs, C11Req{Method: "GET", StartAfter: -1})
	}
	p.Conns = []C11ConnScript{{MaxStreams: 1000, Silent: true, StallAfterReqs: n}}
	p.Mask = []string{"atomic", "prelock", "net", "yield"}
	p.PoolPol = r.Intn(3)
	p.Strategy = genStrategy(r)
	p.Strategy.Stay = Pick(r, 0.9, 0.97)
	p.SelSeed = r.Uint64()
	p.MaxSteps = 1500000
	return p
}

func RunC11(plan *C11Plan, tape *Tape, searchSeed uint64) *RunResult {
	res := &RunResult{Property: "C11", Family: plan.Family}
	sim := NewSim(tape, NewRNG(searchSeed))
	w := NewC11World(sim, plan)
	ok := func() bool { return sim.Viol == nil && sim.Steps < sim.MaxSteps }
	// workload to quiescence, no clock movement: GOAWAY effects must not need a timeout
	for round := 0; round < 6 && ok(); round++ {
		sim.RunPhase(w, 0, plan.Strategy.TimeRace > 0)
		if !ok() {
			break
		}
		if v := w.atQuiescence(); v != nil && w.early == nil {
			w.early = v // kept; the run goes on so that the other rules are judged too
		}
		if len(w.EnvActions()) == 0 && len(sim.enabledG()) == 0 {
			break
		}
	}
	// let timeouts run (MaxResponseTime, pings), then close the client
	if ok() {
		w.phase = 1
		sim.RunPhase(w, 2*time.Minute, false)
	}
	if ok() {
		w.phase = 2
		if w.cl != nil {
			cl, ev := w.cl, w.ev
			simrt.Go("client-close", func() {
				appSync(&w.cfgMu)
				_ = cl.Close()
				ev <- c11Event{kind: "closed"}
			})
		}
		sim.RunPhase(w, time.Hour, false)
		w.drain()
		for _, c := range w.conns {
			if len(c.rx) > c.rxSeen {
				w.parse(c)
			}
		}
		var all []*Violation
		if w.early != nil {
			all = append(all, w.early)
		}
		if v := w.final(); v != nil {
			all = append(all, v)
		}
		all = append(all, w.more...)
		seen := map[string]bool{}
		var uniq []*Violation
		for _, v := range all {
			if !seen[v.Sig] {
				seen[v.Sig] = true
				uniq = append(uniq, v)
			}
		}
		if len(uniq) > 0 {
			sim.Viol = uniq[0]
			res.Extra = uniq[1:]
		}
	}
	// teardown of the shims
	for _, c := range w.conns {
		c.killed = true
		c.b2a.SetEOF()
		c.a2b.SetEOF()
		poke(c.txSig)
	}
	if ok() {
		sim.RunPhase(w, time.Minute, false)
	}
	nGA := 0
	for _, c := range w.conns {
		if c.gaProcessed && len(c.streams) >= 2 {
			nGA++
		}
	}
	res.Nontrivial = nGA > 0 || w.Probes["refused"] > 0 || w.Probes["kill"] > 0 || (plan.Family == "c11-timed" && sim.TimeJumps > 3) || (plan.Family == "c11-many-timeouts" && w.Probes["stall-c2s-for-good"] > 0)
	res.Probes = w.Probes
	res.Summary = fmt.Sprintf("conns=%d callers=%d", len(w.conns), len(w.callers))
	sim.finish(res)
	return res
}

// stallFor: how long a stalled link stays stalled: past MaxResponseTime, so that the timeout fires while a write is parked.
func (w *C11World) stallFor() time.Duration {
	if w.plan.MaxResponseTime > 0 {
		return w.plan.MaxResponseTime + time.Second
	}
	return 2 * time.Second
}

// bigUploadInProgress: the server has seen the HEADERS of a request with a large body and not yet all of the body, so
// the client's write loop is (or is about to be) inside the transport with that body.
func (w *C11World) bigUploadInProgress(c *c11Conn) bool {
	for _, s := range c.streams {
		a := c.byStream[s]
		if a.tag >= 0 && a.tag < len(w.plan.Reqs) && w.plan.Reqs[a.tag].Body >= 100000 && a.dataRecv < w.plan.Reqs[a.tag].Body {
			return true
		}
	}
	return false
}
