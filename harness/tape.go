package harness

// Tape is the single source of every scheduling decision of a run.
// In search mode values are drawn from the run's PRNG and appended; in replay mode they are read
// back; past the end of a replay tape every decision is 0, the "simplest" choice.
type Tape struct {
	Vals   []uint32
	pos    int
	rng    *RNG
	Replay bool
}

func NewSearchTape(seed uint64) *Tape { return &Tape{rng: NewRNG(seed)} }
func NewReplayTape(vals []uint32) *Tape {
	return &Tape{Vals: append([]uint32(nil), vals...), Replay: true}
}

// Record appends a decision made by the search policy.
func (t *Tape) Record(v int) { t.Vals = append(t.Vals, uint32(v)); t.pos = len(t.Vals) }

// Next returns the recorded decision for a choice among n alternatives (replay mode).
func (t *Tape) Next(n int) int {
	if t.pos >= len(t.Vals) {
		t.pos++
		return 0
	}
	v := int(t.Vals[t.pos])
	t.pos++
	if n <= 0 {
		return 0
	}
	return v % n
}

func (t *Tape) Pos() int { return t.pos }

// RNG is splitmix64: tiny, seedable, identical everywhere.
type RNG struct{ s uint64 }

func NewRNG(seed uint64) *RNG { return &RNG{s: seed} }

func (r *RNG) Uint64() uint64 {
	r.s += 0x9E3779B97F4A7C15
	z := r.s
	z = (z ^ (z >> 30)) * 0xBF58476D1CE4E5B9
	z = (z ^ (z >> 27)) * 0x94D049BB133111EB
	return z ^ (z >> 31)
}

func (r *RNG) Intn(n int) int {
	if n <= 1 {
		return 0
	}
	return int(r.Uint64() % uint64(n))
}

func (r *RNG) Float() float64 { return float64(r.Uint64()>>11) / float64(1<<53) }

func (r *RNG) Bool(p float64) bool { return r.Float() < p }

// Pick returns one of the values.
func Pick[T any](r *RNG, vs ...T) T { return vs[r.Intn(len(vs))] }

// Mix derives a sub-seed.
func Mix(a, b uint64) uint64 {
	r := RNG{s: a ^ (b * 0xD1B54A32D192ED03)}
	return r.Uint64()
}
