package harness

import (
	"fmt"

	"golang.org/x/net/http2/hpack"
)

// HF is a header field as the peer means it.
type HF struct {
	Name, Value string
}

// Rep selects the HPACK representation of one field (tape-chosen).
//
//	bits 0-1: 0 indexed if an exact match is in a table, else literal with incremental indexing
//	          1 literal with incremental indexing   2 literal without indexing   3 literal never indexed
//	bit 2: Huffman-code the name (when it is sent literally)   bit 3: Huffman-code the value
//	bit 4: send the name literally even if a table entry carries it
type Rep int

var staticTable = [...]HF{
	{":authority", ""}, {":method", "GET"}, {":method", "POST"}, {":path", "/"}, {":path", "/index.html"},
	{":scheme", "http"}, {":scheme", "https"}, {":status", "200"}, {":status", "204"}, {":status", "206"},
	{":status", "304"}, {":status", "400"}, {":status", "404"}, {":status", "500"}, {"accept-charset", ""},
	{"accept-encoding", "gzip, deflate"}, {"accept-language", ""}, {"accept-ranges", ""}, {"accept", ""},
	{"access-control-allow-origin", ""}, {"age", ""}, {"allow", ""}, {"authorization", ""}, {"cache-control", ""},
	{"content-disposition", ""}, {"content-encoding", ""}, {"content-language", ""}, {"content-length", ""},
	{"content-location", ""}, {"content-range", ""}, {"content-type", ""}, {"cookie", ""}, {"date", ""}, {"etag", ""},
	{"expect", ""}, {"expires", ""}, {"from", ""}, {"host", ""}, {"if-match", ""}, {"if-modified-since", ""},
	{"if-none-match", ""}, {"if-range", ""}, {"if-unmodified-since", ""}, {"last-modified", ""}, {"link", ""},
	{"location", ""}, {"max-forwards", ""}, {"proxy-authenticate", ""}, {"proxy-authorization", ""}, {"range", ""},
	{"referer", ""}, {"refresh", ""}, {"retry-after", ""}, {"server", ""}, {"set-cookie", ""},
	{"strict-transport-security", ""}, {"transfer-encoding", ""}, {"user-agent", ""}, {"vary", ""}, {"via", ""},
	{"www-authenticate", ""},
}

// RefEncoder is a small reference HPACK encoder (RFC 7541) in which the caller picks every representation.
type RefEncoder struct {
	dyn     []HF // newest first
	size    uint32
	maxSize uint32 // current dynamic table size (≤ the peer's SETTINGS_HEADER_TABLE_SIZE)
	pending []uint32
	mirror  *hpack.Decoder // x/net decoder fed with everything we emit: validates the encoder itself
	got     []hpack.HeaderField
}

func NewRefEncoder() *RefEncoder {
	e := &RefEncoder{maxSize: 4096}
	e.mirror = hpack.NewDecoder(4096, func(f hpack.HeaderField) { e.got = append(e.got, f) })
	return e
}

// SetTableSize schedules a dynamic table size update to be emitted at the start of the next block.
func (e *RefEncoder) SetTableSize(n uint32) {
	e.pending = append(e.pending, n)
}

// AllowTableSize tells the mirror decoder what the (simulated) decoder side allows.
func (e *RefEncoder) AllowTableSize(n uint32) { e.mirror.SetAllowedMaxDynamicTableSize(n) }

func appendInt(dst []byte, prefixBits uint, first byte, v uint64) []byte {
	max := uint64(1)<<prefixBits - 1
	if v < max {
		return append(dst, first|byte(v))
	}
	dst = append(dst, first|byte(max))
	v -= max
	for v >= 128 {
		dst = append(dst, byte(v&127)|128)
		v >>= 7
	}
	return append(dst, byte(v))
}

func appendString(dst []byte, s string, huff bool) []byte {
	if huff {
		n := hpack.HuffmanEncodeLength(s)
		dst = appendInt(dst, 7, 0x80, n)
		return hpack.AppendHuffmanString(dst, s)
	}
	dst = appendInt(dst, 7, 0, uint64(len(s)))
	return append(dst, s...)
}

func (e *RefEncoder) evictTo(limit uint32) {
	for e.size > limit && len(e.dyn) > 0 {
		last := e.dyn[len(e.dyn)-1]
		e.size -= uint32(len(last.Name) + len(last.Value) + 32)
		e.dyn = e.dyn[:len(e.dyn)-1]
	}
}

func (e *RefEncoder) add(f HF) {
	sz := uint32(len(f.Name) + len(f.Value) + 32)
	if sz > e.maxSize {
		e.dyn = nil
		e.size = 0
		return
	}
	e.evictTo(e.maxSize - sz)
	e.dyn = append([]HF{f}, e.dyn...)
	e.size += sz
}

// find returns the index of an exact match and of a name match (0 = none).
func (e *RefEncoder) find(f HF) (full, name uint64) {
	for i, s := range staticTable {
		if s.Name == f.Name {
			if name == 0 {
				name = uint64(i + 1)
			}
			if s.Value == f.Value {
				return uint64(i + 1), name
			}
		}
	}
	for i, s := range e.dyn {
		if s.Name == f.Name {
			if name == 0 {
				name = uint64(len(staticTable) + i + 1)
			}
			if s.Value == f.Value {
				return uint64(len(staticTable) + i + 1), name
			}
		}
	}
	return 0, name
}

// DynLen returns the number of dynamic table entries (for coverage probes).
func (e *RefEncoder) DynLen() int { return len(e.dyn) }

// EncodeBlock encodes fields with the given representations (reps shorter than fields → 0).
// It returns the block and checks it against the mirror decoder; a mismatch is a harness bug.
func (e *RefEncoder) EncodeBlock(fields []HF, reps []Rep) ([]byte, error) {
	var b []byte
	for _, n := range e.pending {
		b = appendInt(b, 5, 0x20, uint64(n))
		e.maxSize = n
		e.evictTo(n)
	}
	e.pending = nil
	for i, f := range fields {
		var r Rep
		if i < len(reps) {
			r = reps[i]
		}
		mode := r & 3
		huffN, huffV, litName := r&4 != 0, r&8 != 0, r&16 != 0
		full, name := e.find(f)
		if mode == 0 && full != 0 {
			b = appendInt(b, 7, 0x80, full)
			continue
		}
		if mode == 0 {
			mode = 1
		}
		if litName {
			name = 0
		}
		switch mode {
		case 1:
			b = appendInt(b, 6, 0x40, name)
		case 2:
			b = appendInt(b, 4, 0x00, name)
		case 3:
			b = appendInt(b, 4, 0x10, name)
		}
		if name == 0 {
			b = appendString(b, f.Name, huffN)
		}
		b = appendString(b, f.Value, huffV)
		if mode == 1 {
			e.add(f)
		}
	}
	// self-check
	e.got = e.got[:0]
	if _, err := e.mirror.Write(b); err != nil {
		return nil, fmt.Errorf("reference encoder produced a block x/net rejects: %v", err)
	}
	if err := e.mirror.Close(); err != nil {
		return nil, fmt.Errorf("reference encoder produced a truncated block: %v", err)
	}
	if len(e.got) != len(fields) {
		return nil, fmt.Errorf("reference encoder: %d fields in, %d out", len(fields), len(e.got))
	}
	for i := range fields {
		if e.got[i].Name != fields[i].Name || e.got[i].Value != fields[i].Value {
			return nil, fmt.Errorf("reference encoder: field %d %q:%q decoded as %q:%q", i, fields[i].Name, fields[i].Value, e.got[i].Name, e.got[i].Value)
		}
	}
	return b, nil
}

// tableWatch follows the size of an encoder's dynamic table as its own output shows it (RFC 7541 4.2, 6.3):
// 4096 until a dynamic table size update says otherwise. Every frame sent after an acknowledgement has to respect the
// acknowledged SETTINGS_HEADER_TABLE_SIZE, so when a header block arrives, the limit acknowledged last before it is the
// one that counts: if it lies below the size the encoder has been working with, the peer's decoder is shrunk to it
// before the block is decoded, whether or not the block says so in a size update. An encoder that goes on with the
// larger table then refers to entries the decoder no longer has and the block fails to decode. (Limits that came and
// went between two header blocks are not held against the encoder: RFC 7541 4.2 wants the smallest of them signalled,
// but the statement of C18 is about the table behind the frames that are sent.)
type tableWatch struct {
	cur     int64
	pending int64 // limit acknowledged since the last header block, -1 if none
}

func newTableWatch() tableWatch { return tableWatch{cur: 4096, pending: -1} }

// acked is called when an acknowledgement makes limit binding for the encoder.
func (t *tableWatch) acked(limit int64) { t.pending = limit }

// sent is called when the peer sends a new limit. An increase counts from the moment it is sent (the sender is ready for
// it), so it takes the place of a smaller limit that was acknowledged since the last header block and has not been
// applied yet: an encoder that has seen both before it writes its next block owes the decoder nothing but the final
// size (seen once in 276 000 runs of the thorough tier: acknowledged 100, then 65536 sent, then the next block).
func (t *tableWatch) sent(limit int64) {
	if t.pending >= 0 && limit > t.pending {
		t.pending = limit
	}
}

// beforeBlock reports the size the decoder has to be shrunk to before the next header block is decoded.
func (t *tableWatch) beforeBlock() (int64, bool) {
	l := t.pending
	t.pending = -1
	if l >= 0 && l < t.cur {
		t.cur = l
		return l, true
	}
	return 0, false
}

// block follows the size updates at the start of a complete header block.
func (t *tableWatch) block(b []byte) {
	for len(b) > 0 && b[0]&0xe0 == 0x20 {
		v := int64(b[0] & 0x1f)
		b = b[1:]
		if v == 0x1f {
			shift := uint(0)
			for len(b) > 0 {
				c := b[0]
				b = b[1:]
				v += int64(c&0x7f) << shift
				shift += 7
				if c&0x80 == 0 || shift > 56 {
					break
				}
			}
		}
		t.cur = v
	}
}
