package harness

import (
	"fmt"
	"strconv"
	"strings"
	"time"
)

// GenC12: C02-like traffic against a server that misbehaves, dies, or is raced by Close/Cancel.
func GenC12(r *RNG) *CliPlan {
	p := genC02(r, false)
	p.Family = "c12"
	n := len(p.Reqs)
	nops := 0
	for _, l := range p.Lanes {
		nops += len(l.Ops)
	}
	after := func() int { return Pick(r, -1, r.Intn(nops+1)) }
	kind := Pick(r, "cut-eof", "cut-eof", "cut-rst", "werr", "mutate", "mutate", "server-rst", "goaway", "silence", "early-response", "close-race", "cancel", "flip", "unknown-frames", "no-ping-ack", "bad-preface")
	p.Trail = kind
	switch kind {
	case "cut-eof", "cut-rst":
		p.Faults = append(p.Faults, Fault{Kind: kind, At: int64(r.Intn(500)), AfterOps: after()})
	case "werr":
		p.Faults = append(p.Faults, Fault{Kind: "werr", At: int64(r.Intn(400)), AfterOps: after()})
	case "flip":
		for k := 0; k < 1+r.Intn(3); k++ {
			p.Faults = append(p.Faults, Fault{Kind: "flip", At: int64(r.Intn(300)), AfterOps: after()})
		}
	case "mutate":
		for k := 0; k < 1+r.Intn(3); k++ {
			li := r.Intn(n)
			l := &p.Lanes[li]
			if len(l.Ops) == 0 {
				continue
			}
			l.Resp = nil
			oi := r.Intn(len(l.Ops))
			switch r.Intn(8) {
			case 0:
				l.Ops = append(l.Ops[:oi+1], l.Ops[oi:]...)
			case 1:
				l.Ops = append(l.Ops[:oi], l.Ops[oi+1:]...)
			case 2:
				l.Ops[oi].EndStream = !l.Ops[oi].EndStream
			case 3:
				if l.Ops[oi].Kind == "headers" {
					l.Ops[oi].NoEndHdrs = true
				}
			case 4:
				l.Ops[oi].StreamRef = Pick(r, -1, 2, 1+2*r.Intn(6), 1001)
			case 5:
				raw := Op{Kind: "raw", RawType: uint8(r.Intn(12)), RawFlags: uint8(r.Intn(256)), RawLen: Pick(r, 0, 1, 4, 5, 8, 9, 100, 16385, 70000), Pad: -1, TableSize: -1, StreamRef: Pick(r, 0, -1, 3)}
				l.Ops = append(l.Ops[:oi], append([]Op{raw}, l.Ops[oi:]...)...)
			case 6:
				if oi+1 < len(l.Ops) {
					l.Ops[oi], l.Ops[oi+1] = l.Ops[oi+1], l.Ops[oi]
				}
			case 7: // malformed response header
				if l.Ops[oi].Kind == "headers" {
					l.Ops[oi].Fields = append(l.Ops[oi].Fields, Pick(r, HF{"X-Upper", "v"}, HF{":status", "200"}, HF{"connection", "close"}, HF{"content-length", "abc"}, HF{":path", "/"}))
				}
			}
		}
	case "server-rst":
		li := r.Intn(n)
		l := &p.Lanes[li]
		l.Resp = nil
		cut := r.Intn(len(l.Ops) + 1)
		l.Ops = append(l.Ops[:cut:cut], Op{Kind: "rst", Code: uint32(Pick(r, 0, 2, 7, 8, 11)), Pad: -1, TableSize: -1})
	case "goaway":
		g := Lane{Name: "goaway", After: -1, Ops: []Op{{Kind: "goaway", Code: uint32(Pick(r, 0, 0, 1, 2, 11)), Incr: uint32(Pick(r, 0, 1, 3, 5, 1<<31-1)), Pad: -1, TableSize: -1}}}
		if r.Intn(2) == 0 {
			g.After = r.Intn(n)
		}
		p.Lanes = append(p.Lanes, g)
	case "silence":
		for k := 0; k < 1+r.Intn(n); k++ {
			li := r.Intn(n)
			p.Lanes[li].Ops = p.Lanes[li].Ops[:r.Intn(len(p.Lanes[li].Ops)+1)]
			p.Lanes[li].Resp = nil
		}
	case "early-response":
		for k := range p.Reqs {
			p.Lanes[k].WaitEnd = false
			if p.Reqs[k].BodyMode == "none" {
				p.Reqs[k].Method = "POST"
				p.Reqs[k].BodyMode = Pick(r, "buffered", "stream-declared", "stream-unknown")
				p.Reqs[k].BodyLen = Pick(r, 70000, 150000)
			}
		}
		p.Srv.InitialWindow = Pick(r, int64(16384), 65535)
		p.Srv.AutoWindow = r.Intn(2) == 0
	case "close-race":
		p.CloseAt = "sched"
	case "cancel":
		for k := range p.Reqs {
			if r.Intn(2) == 0 {
				p.Reqs[k].Cancel = "any"
			}
		}
	case "unknown-frames":
		u := Lane{Name: "unknown", After: -1}
		for k := 0; k < 1+r.Intn(5); k++ {
			u.Ops = append(u.Ops, Op{Kind: "raw", RawType: uint8(Pick(r, 10, 11, 12, 64, 127, 128, 200, 255)), RawFlags: uint8(r.Intn(256)), RawLen: Pick(r, 0, 1, 8, 100), StreamRef: Pick(r, -1, 1, 3), Pad: -1, TableSize: -1})
		}
		p.Lanes = append(p.Lanes, u)
	case "bad-preface":
		// the server's side of the connection does not start with SETTINGS (RFC 7540 3.5): the handshake must come back,
		// one way or the other
		p.BadPreface = Pick(r, "ping-first", "goaway-first", "garbage", "data-first")
	case "no-ping-ack":
		p.NoPingAck = true
		p.DisablePingChecking = false
		p.PingInterval = time.Second
		for k := 0; k < 1+r.Intn(n); k++ {
			li := r.Intn(n)
			p.Lanes[li].Ops = nil
			p.Lanes[li].Resp = nil
		}
	}
	return p
}

// onlyOwnBytes: every byte of a body a caller got comes from the pattern of its own response.
func onlyOwnBytes(k int, body []byte) (int, bool) {
	tag := "<resp " + strconv.Itoa(k) + ">"
	for i := range body {
		if body[i] != tag[i%len(tag)] {
			return i, false
		}
	}
	return 0, true
}

// c12Late is evaluated after the connection was closed locally, the server went away and a minute passed.
func c12Late(w *CliWorld) *Violation {
	kind := w.plan.Trail
	mk := func(rule, sig, d string) *Violation {
		return &Violation{Property: "C12", Rule: rule, Sig: sig, Detail: d + " [server behaviour: " + kind + "]"}
	}
	hostile := kind == "mutate" || kind == "flip" // the server's output is not what the plan's response model says
	for _, rc := range w.sim.R.Recovers {
		return mk("recovered-panic", "recovered-panic/"+siteFunc(rc.Site)+"/"+kind, fmt.Sprintf("panic recovered at %s: %.1200s", rc.Site, rc.Value))
	}
	if !w.hsSeen {
		return mk("handshake-stuck", "handshake-stuck/"+blockedSig(w.aliveSys())+"/"+kind, fmt.Sprintf("Handshake has not returned although the connection was closed, the server left and a minute passed; goroutines: %s", strings.Join(w.aliveList(), "; ")))
	}
	for k, c := range w.callers {
		if !c.started {
			continue
		}
		if !c.returned && c.cancelOffered {
			continue // the caller cancelled the request itself (Conn.Cancel): that is how it ended
		}
		if !c.returned {
			return mk("request-stranded", "request-stranded/"+blockedSig(w.aliveSys())+"/"+kind, fmt.Sprintf("caller %d never got an answer on Ctx.Err although the connection was closed, the server left and a minute passed; goroutines: %s", k, strings.Join(w.aliveList(), "; ")))
		}
		if c.err == nil && !hostile {
			l := &w.plan.Lanes[k]
			if l.Resp != nil {
				if !w.lanes[k].sentAll {
					return mk("success-without-response", "success-without-response/"+kind, fmt.Sprintf("caller %d returned nil but the server had sent only %d of %d frames of its response", k, w.lanes[k].next, len(l.Ops)))
				}
				if rule, d := checkResponseReturned(k, l, c); rule != "" {
					return mk("wrong-response", "wrong-response/"+kind+"/"+strings.SplitN(rule, "/", 2)[0], fmt.Sprintf("caller %d returned nil: %s", k, d))
				}
			}
			if at, ok := onlyOwnBytes(k, c.snap.Body); !ok {
				return mk("foreign-bytes", "foreign-bytes/"+kind, fmt.Sprintf("caller %d returned nil with a body whose byte %d does not belong to its own response: %.60q", k, at, c.snap.Body))
			}
		}
	}
	if left := w.aliveSys(); len(left) > 0 {
		return mk("goroutine-left", "goroutine-left/"+blockedSig(left)+"/"+kind, fmt.Sprintf("after Close and the server's departure goroutines of the connection remain: %s", strings.Join(left, "; ")))
	}
	return nil
}

func (w *CliWorld) aliveList() []string {
	var out []string
	for _, n := range w.sim.Alive(false) {
		out = append(out, shortName(n)+" @ "+w.sim.ParkedOn(n))
	}
	return out
}

func (w *CliWorld) aliveSys() []string {
	var out []string
	for _, n := range w.sim.Alive(true) {
		out = append(out, shortName(n)+" @ "+w.sim.ParkedOn(n))
	}
	return out
}

// c12Nontrivial: the fault fired strictly inside a frame or with a request in flight.
func c12Nontrivial(w *CliWorld) bool {
	started := 0
	for _, c := range w.callers {
		if c.started {
			started++
		}
	}
	return started > 0 && len(w.Streams) > 0
}
