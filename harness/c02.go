package harness

import (
	"bytes"
	"fmt"
	"strconv"
	"strings"
	"time"
)

var cliMethods = []string{"GET", "POST", "PUT", "DELETE", "PATCH"}

// GenCliReq builds one request and its scripted response lane.
type CliOpts struct {
	MaxBody       int
	BodyModes     []string
	RespMaxBody   int
	Variety       bool
	Splits        bool
	Padding       bool
	ConnFields    bool // include connection-specific fields in the request (they must be stripped)
	BadReader     bool // body readers may fail
	RespTrailers  bool // scripted responses may end with trailers
	AlwaysWaitEnd bool
}

func GenCliReq(r *RNG, k int, o CliOpts) (CliReq, Lane) {
	q := CliReq{Method: Pick(r, cliMethods...), Path: Pick(r, genPaths...), Host: Pick(r, "example.com", "localhost:8443", "a.b.c:443"), ErrAt: -1, StartAfter: -1, BodyMode: "none"}
	q.Fields = append(q.Fields, HF{"x-rid", fmt.Sprint(k)})
	if r.Intn(12) == 0 {
		// a request header list larger than the largest frame the server accepts: the client has to continue it
		for j := 0; j < 2+r.Intn(5); j++ {
			q.Fields = append(q.Fields, HF{fmt.Sprintf("x-bigreq-%d", j), strings.Repeat(string(rune('k'+j)), 3000+r.Intn(3000))})
		}
	}
	nf := r.Intn(6)
	for i := 0; i < nf; i++ {
		name := Pick(r, "x-a", "x-b", "accept", "accept-language", "x-long-header-name-that-goes-on", "x-1", "referer", "authorization", "x_under", "cache-control")
		q.Fields = append(q.Fields, HF{name, Pick(r, genValues...)})
	}
	if r.Intn(4) == 0 {
		q.Fields = append(q.Fields, HF{"user-agent", Pick(r, "sim/1.0", "Mozilla/5.0 (X11; Linux x86_64)")})
	}
	if o.ConnFields && r.Intn(4) == 0 {
		q.Fields = append(q.Fields, Pick(r, HF{"keep-alive", "timeout=5"}, HF{"proxy-connection", "keep-alive"}, HF{"upgrade", "websocket"}))
	}
	if q.Method != "GET" && q.Method != "DELETE" && o.MaxBody > 0 {
		q.BodyMode = Pick(r, o.BodyModes...)
		sizes := []int{0, 1, 100, 5000, 16384, 16385, 40000, 70000, 150000}
		q.BodyLen = Pick(r, sizes...)
		for q.BodyLen > o.MaxBody {
			q.BodyLen = Pick(r, sizes...)
		}
		if q.BodyMode == "stream-zero" {
			q.BodyLen = 0
		}
		if q.BodyMode == "buffered" && q.BodyLen == 0 {
			q.BodyMode = "none"
		}
		if strings.HasPrefix(q.BodyMode, "stream") {
			if r.Intn(2) == 0 {
				lo := q.BodyLen / 300
				q.ReadSizes = []int{max(1+r.Intn(3000), lo), max(1+r.Intn(20000), lo)}
			}
			q.EOFWithData = r.Intn(2) == 0
			if o.BadReader && r.Intn(5) == 0 {
				q.ErrAt = r.Intn(q.BodyLen + 1)
			}
		}
		if r.Intn(2) == 0 {
			q.Fields = append(q.Fields, HF{"content-type", Pick(r, "application/json", "text/plain")})
		}
	}
	// scripted response
	// a response may start before the request has ended only when there is no body left to upload: what a
	// client does with the rest of a body whose response is already complete is C12's business, not C02's
	l := Lane{Name: fmt.Sprintf("resp%d", k), After: -1, WaitEnd: r.Intn(2) == 0 || q.BodyMode != "none" || o.AlwaysWaitEnd}
	resp := &Resp{Status: Pick(r, respStatuses...), ErrAt: -1}
	fields := []HF{{":status", fmt.Sprint(resp.Status)}}
	nrf := r.Intn(4)
	seen := map[string]bool{}
	for i := 0; i < nrf; i++ {
		n := Pick(r, respNames...)
		if r.Intn(8) == 0 {
			n = "x_resp_under"
		}
		if seen[n] {
			continue
		}
		seen[n] = true
		resp.Fields = append(resp.Fields, HF{n, Pick(r, respValues...)})
	}
	if r.Intn(12) == 0 {
		// a response header list of several frames' worth
		for j := 0; j < 2+r.Intn(5); j++ {
			resp.Fields = append(resp.Fields, HF{fmt.Sprintf("x-big-%d", j), strings.Repeat(string(rune('a'+j)), 3000+r.Intn(3000))})
		}
	}
	resp.Fields = append(resp.Fields, HF{"x-rid", fmt.Sprint(k)})
	bs := []int{0, 1, 100, 5000, 16384, 16385, 40000, 100000}
	resp.BodyLen = Pick(r, bs...)
	for resp.BodyLen > o.RespMaxBody {
		resp.BodyLen = Pick(r, bs...)
	}
	if r.Intn(3) == 0 {
		resp.Fields = append(resp.Fields, HF{"content-length", fmt.Sprint(resp.BodyLen)})
	}
	fields = append(fields, resp.Fields...)
	h := Op{Kind: "headers", Fields: fields, Reps: genReps(r, len(fields), o.Variety), Pad: -1, TableSize: -1}
	if o.Splits {
		h.Splits = genSplits(r)
	}
	if o.Padding {
		h.Pad = genPad(r)
	}
	endOnHeaders := resp.BodyLen == 0 && r.Intn(2) == 0
	h.EndStream = endOnHeaders
	if o.RespTrailers && r.Intn(10) == 0 {
		// an interim response first (RFC 7540 8.1: zero or more header blocks with a 1xx status precede the final one)
		resp.Interim = []HF{{"link", "</style.css>; rel=preload"}}
		ih := Op{Kind: "headers", Fields: append([]HF{{":status", "103"}}, resp.Interim...), Pad: -1, TableSize: -1}
		ih.Reps = genReps(r, len(ih.Fields), o.Variety)
		l.Ops = append(l.Ops, ih)
	}
	l.Ops = append(l.Ops, h)
	if !endOnHeaders {
		rest := resp.BodyLen
		for rest > 0 {
			n := rest
			switch r.Intn(4) {
			case 0:
				n = 1 + r.Intn(min(rest, 64))
			case 1:
				n = 1 + r.Intn(rest)
			}
			if n > 16384 {
				n = 16384
			}
			if r.Intn(10) == 0 {
				l.Ops = append(l.Ops, Op{Kind: "data", Len: 0, Pad: -1, TableSize: -1})
			}
			pad := -1
			if o.Padding {
				pad = genPad(r)
				if pad >= 0 && n+pad+1 > 16384 {
					pad = -1
				}
			}
			rest -= n
			l.Ops = append(l.Ops, Op{Kind: "data", Len: n, Pad: pad, EndStream: rest == 0, TableSize: -1})
		}
		if resp.BodyLen == 0 {
			l.Ops = append(l.Ops, Op{Kind: "data", Len: 0, Pad: -1, EndStream: true, TableSize: -1})
		}
		if o.RespTrailers && r.Intn(6) == 0 {
			// trailers: the stream ends with a second header block instead of a DATA frame
			resp.Trailers = []HF{{"x-trailer-r", Pick(r, "t1", "", "ok")}}
			if r.Intn(2) == 0 {
				resp.Trailers = append(resp.Trailers, HF{"grpc-status", "0"})
			}
			l.Ops[len(l.Ops)-1].EndStream = false
			t := Op{Kind: "trailers", Fields: resp.Trailers, Reps: genReps(r, len(resp.Trailers), o.Variety), Pad: -1, EndStream: true, TableSize: -1}
			if o.Splits && r.Intn(2) == 0 {
				t.Splits = genSplits(r)
			}
			l.Ops = append(l.Ops, t)
		}
	}
	l.Resp = resp
	if o.Variety {
		junkFlags(r, l.Ops)
	}
	return q, l
}

func genCliCommon(r *RNG, p *CliPlan) {
	p.Mask = genMask(r)
	p.PoolPol = r.Intn(3)
	p.Strategy = genStrategy(r)
	p.SelSeed = r.Uint64()
	p.Frag = r.Intn(2) == 0
	p.DelayC2S = r.Intn(2) == 0
	p.PingInterval = Pick(r, time.Duration(0), 0, time.Second)
	p.DisablePingChecking = r.Intn(2) == 0
	p.SrvMaxStreams = -1
}

// GenC02: concurrent requests through one client connection against a conforming scripted server.
func GenC02(r *RNG) *CliPlan      { return genC02(r, false) }
func GenC02Split(r *RNG) *CliPlan { return genC02(r, true) }

func genC02(r *RNG, splits bool) *CliPlan {
	p := &CliPlan{Family: "c02"}
	genCliCommon(r, p)
	p.Srv = PeerCfg{InitialWindow: Pick(r, int64(1<<20), 1<<24), MaxFrameSize: Pick(r, int64(-1), 16384, 65536), HeaderTableSize: Pick(r, int64(-1), 4096, 256, 0),
		AutoWindow: true, ConnWindowBoost: 1 << 24, LinkCap: Pick(r, 0, 0, 8192, 100000)}
	n := 1 + r.Intn(6)
	o := CliOpts{MaxBody: 150000, BodyModes: []string{"buffered", "buffered", "stream-declared", "stream-unknown", "stream-zero"}, RespMaxBody: 100000,
		Variety: r.Intn(4) != 0, Splits: splits && r.Intn(3) != 0, Padding: r.Intn(2) == 0, ConnFields: true, RespTrailers: true}
	for k := 0; k < n; k++ {
		q, l := GenCliReq(r, k, o)
		if k > 0 && r.Intn(4) == 0 {
			q.StartAfter = r.Intn(k)
		}
		p.Reqs = append(p.Reqs, q)
		p.Lanes = append(p.Lanes, l)
	}
	if r.Intn(8) == 0 {
		hpackTableFull(r, p.Lanes[:n], 4096)
		p.Srv.HeaderTableSize = -1
	}
	if r.Intn(5) == 0 {
		// the server asks too: PINGs at scheduler-chosen moments, each to be acknowledged with its own payload
		pl := Lane{Name: "pings", After: -1}
		for k := 1 + r.Intn(4); k > 0; k-- {
			pl.Ops = append(pl.Ops, Op{Kind: "ping", Pad: -1, TableSize: -1})
		}
		p.Lanes = append(p.Lanes, pl)
	}
	return p
}

// hpackTableFull rewrites the responses (or requests) of the lanes so that their header blocks fill the decoder's
// dynamic table to exactly `size` octets (RFC 7541 4.1: name + value + 32 per entry; a table that is exactly full
// evicts nothing) and later blocks refer to every entry, the oldest included.
func hpackTableFull(r *RNG, lanes []Lane, size int) {
	k := Pick(r, 1, 2, 3, 4, 8)
	left := size
	var fill []HF
	for i := 0; i < k; i++ {
		n := left
		if i < k-1 {
			n = 41 + r.Intn(left-(k-i-1)*41-40)
		}
		left -= n
		fill = append(fill, HF{fmt.Sprintf("x-fill-%d", i), strings.Repeat(string(rune('a'+i)), n-32-8)})
	}
	for li := range lanes {
		l := &lanes[li]
		for oi := range l.Ops {
			op := &l.Ops[oi]
			if op.Kind != "headers" || len(op.Fields) == 0 || (op.Fields[0].Name == ":status" && op.Fields[0].Value == "103") {
				continue
			}
			var rid HF
			for _, f := range op.Fields {
				if f.Name == "x-rid" {
					rid = f
				}
			}
			if l.Req != nil {
				// a request: everything it had stays, sent literally and kept out of the table; the fill fields follow
				op.Reps = make([]Rep, len(op.Fields)+len(fill))
				for i := range op.Fields {
					op.Reps[i] = 2
				}
				op.Fields = append(op.Fields, fill...)
				l.Req.Fields = append(l.Req.Fields, fill...)
				for ti := range l.Ops {
					if l.Ops[ti].Kind == "trailers" {
						for i := range l.Ops[ti].Reps {
							l.Ops[ti].Reps[i] = 2
						}
					}
				}
				break
			}
			if l.Resp != nil {
				l.Resp.Status = 200
				l.Resp.Fields = append(append([]HF{}, fill...), rid)
				op.Fields = append(append([]HF{{":status", "200"}}, fill...), rid)
			}
			op.Reps = make([]Rep, len(op.Fields))
			op.Reps[len(op.Reps)-1] = 2 // the one field that differs between the blocks is never put into the table
			break
		}
	}
}

func isConnSpecific(n string) bool {
	switch n {
	case "connection", "keep-alive", "proxy-connection", "transfer-encoding", "upgrade":
		return true
	}
	return false
}

// checkRequestReceived: what the server decoded for request k equals what the caller gave (C02 first half).
func checkRequestReceived(k int, q *CliReq, ss *SrvStream) (rule, detail string) {
	if ss == nil {
		return "request-never-arrived", "no stream carried this request"
	}
	if ss.DecodeErr != "" {
		return "request-hpack", "x/net could not decode the request header block: " + ss.DecodeErr
	}
	if ss.HdrBlocks != 1 {
		return "request-headers-count", fmt.Sprintf("%d header blocks on the stream", ss.HdrBlocks)
	}
	get := func(n string) (string, int) {
		v, c := "", 0
		for _, f := range ss.Fields {
			if f.Name == n {
				v = f.Value
				c++
			}
		}
		return v, c
	}
	// what was "given" is a fasthttp.Request: its own reading of the URI is the reference for :path
	ref := appBuildRequest(&CliReq{Method: q.Method, Path: q.Path, Host: q.Host, BodyMode: "none", ErrAt: -1}, k)
	wantPath := string(ref.URI().RequestURI())
	for _, ps := range [][2]string{{":method", q.Method}, {":path", wantPath}, {":scheme", "https"}, {":authority", q.Host}} {
		v, c := get(ps[0])
		if c != 1 || v != ps[1] {
			return "request-pseudo/" + ps[0][1:], fmt.Sprintf("%s: gave %q, server decoded %q (×%d)", ps[0], ps[1], v, c)
		}
	}
	// pseudo-headers first
	regular := false
	for _, f := range ss.Fields {
		if strings.HasPrefix(f.Name, ":") {
			if regular {
				return "request-pseudo-order", "pseudo-header after a regular field: " + fmtHFs(ss.Fields)
			}
		} else {
			regular = true
		}
	}
	var want []HF
	for _, f := range q.Fields {
		n := strings.ToLower(f.Name)
		if isConnSpecific(n) {
			continue
		}
		want = append(want, HF{n, f.Value})
	}
	wm := multiset(want)
	var got []HF
	for _, f := range ss.Fields {
		if !strings.HasPrefix(f.Name, ":") {
			got = append(got, f)
		}
	}
	gm := multiset(got)
	for kk, n := range wm {
		if gm[kk] != n {
			kv := strings.SplitN(kk, "\x00", 2)
			d := "field"
			if strings.Contains(kv[0], "_") {
				d = "underscore"
			}
			return "request-field/" + d, fmt.Sprintf("gave %q=%q ×%d, server decoded ×%d; server's view: %s", kv[0], kv[1], n, gm[kk], fmtHFs(ss.Fields))
		}
	}
	body := genBody(k, q.BodyLen)
	if q.BodyMode == "none" {
		body = nil
	}
	for kk := range gm {
		if wm[kk] > 0 {
			continue
		}
		kv := strings.SplitN(kk, "\x00", 2)
		switch kv[0] {
		case "user-agent", "host", "content-type":
		case "content-length":
			if kv[1] != strconv.Itoa(len(body)) {
				return "request-content-length", fmt.Sprintf("content-length %q for a body of %d bytes", kv[1], len(body))
			}
		default:
			if isConnSpecific(kv[0]) {
				return "request-connection-specific", fmt.Sprintf("connection-specific field %q=%q was sent", kv[0], kv[1])
			}
			return "request-field-extra", fmt.Sprintf("server decoded %q=%q which the caller did not give", kv[0], kv[1])
		}
	}
	if len(ss.RST) > 0 {
		return "request-reset", fmt.Sprintf("client sent RST_STREAM(%d)", ss.RST[0])
	}
	if !bytes.Equal(ss.Data, body) {
		if ss.EndStreams == 0 && len(ss.Data) <= len(body) && bytes.Equal(ss.Data, body[:len(ss.Data)]) {
			return "request-body-incomplete/mode=" + q.BodyMode, fmt.Sprintf("server has %d of %d body bytes and no END_STREAM at quiescence", len(ss.Data), len(body))
		}
		return "request-body/mode=" + q.BodyMode, fmt.Sprintf("gave %d bytes, server got %d (first difference at %d)", len(body), len(ss.Data), firstDiff(ss.Data, body))
	}
	if ss.EndStreams == 0 {
		return "request-no-end-stream/mode=" + q.BodyMode, "END_STREAM never arrived"
	}
	if ss.EndStreams > 1 {
		return "request-end-stream-twice/mode=" + q.BodyMode, fmt.Sprintf("END_STREAM on %d frames", ss.EndStreams)
	}
	return "", ""
}

// checkResponseReturned: the caller got exactly the response the server sent on its stream (C02 second half).
func checkResponseReturned(k int, l *Lane, c *callerState) (rule, detail string) {
	if !c.returned {
		return "caller-never-returned", "the caller is still waiting at quiescence although its response was sent in full"
	}
	if c.err != nil {
		return "caller-error", fmt.Sprintf("caller got error %q for a complete, well-formed response", c.err.Error())
	}
	r := l.Resp
	if c.snap.Status != r.Status {
		return "response-status", fmt.Sprintf("server sent %d, caller got %d", r.Status, c.snap.Status)
	}
	body := RespBody(k, r.BodyLen)
	if !bytes.Equal(c.snap.Body, body) {
		return "response-body", fmt.Sprintf("server sent %d bytes, caller got %d (first difference at %d; caller's body starts %.40q)", len(body), len(c.snap.Body), firstDiff(c.snap.Body, body), c.snap.Body)
	}
	want := multiset(r.Fields)
	got := multiset(c.snap.Fields)
	for kk, n := range want {
		kv := strings.SplitN(kk, "\x00", 2)
		if kv[0] == "content-length" {
			continue
		}
		if got[kk] != n {
			d := "field"
			if strings.Contains(kv[0], "_") {
				d = "underscore"
			}
			return "response-field/" + d, fmt.Sprintf("server sent %q=%q ×%d, caller got ×%d; caller's view: %s", kv[0], kv[1], n, got[kk], fmtHFs(c.snap.Fields))
		}
	}
	for kk := range got {
		if want[kk] > 0 {
			continue
		}
		kv := strings.SplitN(kk, "\x00", 2)
		trailer := false
		for _, t := range append(append([]HF{}, r.Trailers...), r.Interim...) {
			trailer = trailer || (t.Name == kv[0] && t.Value == kv[1])
		}
		if trailer {
			continue // trailer fields may be reported along with the header fields, or not at all
		}
		switch kv[0] {
		case "content-type", "content-length", "server", "date":
		default:
			return "response-field-extra", fmt.Sprintf("caller got %q=%q which the server did not send on its stream", kv[0], kv[1])
		}
	}
	return "", ""
}

func c02Final(w *CliWorld, prop string) *Violation {
	// runs in which some response header block is continued in CONTINUATION frames are a class of their own:
	// the client's decoder gives up inside such a block and every later block on the connection is out of step
	pre := ""
	for _, l := range w.plan.Lanes {
		for _, op := range l.Ops {
			if (op.Kind == "headers" || op.Kind == "trailers") && len(op.Splits) > 0 {
				pre = "headers-continued/"
			}
		}
	}
	mk := func(k int, rule, d string) *Violation {
		return &Violation{Property: prop, Rule: strings.SplitN(rule, "/", 2)[0], Sig: pre + rule, Detail: fmt.Sprintf("request %d (stream %d): %s", k, w.ridStream[k], d)}
	}
	if !w.HsOK {
		return &Violation{Property: prop, Rule: "handshake", Sig: "handshake", Detail: fmt.Sprintf("handshake with a conforming server failed: %v", w.HsErr)}
	}
	// stream ids odd and strictly increasing in order of HEADERS
	last := uint32(0)
	for _, id := range w.streamOrder {
		if id%2 == 0 || id <= last {
			return &Violation{Property: prop, Rule: "stream-id-order", Sig: "stream-id-order", Detail: fmt.Sprintf("stream ids in order of first HEADERS: %v", w.streamOrder)}
		}
		last = id
	}
	for k := range w.plan.Reqs {
		q := &w.plan.Reqs[k]
		if q.Cancel != "" || q.ErrAt >= 0 {
			continue
		}
		var ss *SrvStream
		if id, ok := w.ridStream[k]; ok {
			ss = w.Streams[id]
		}
		if rule, d := checkRequestReceived(k, q, ss); rule != "" {
			return mk(k, rule, d)
		}
		if !w.lanes[k].sentAll {
			return mk(k, "server-blocked", fmt.Sprintf("the scripted server could not send op %d of the response: the client never reopened its receive window (conn=%d stream=%d)", w.lanes[k].next, w.sendConnWin, w.lanes[k].sendWin))
		}
		if rule, d := checkResponseReturned(k, &w.plan.Lanes[k], w.callers[k]); rule != "" {
			return mk(k, rule, d)
		}
	}
	for _, g := range w.GoAways {
		return &Violation{Property: prop, Rule: "client-goaway", Sig: fmt.Sprintf("client-goaway/code=%d", g.Code), Detail: fmt.Sprintf("client sent GOAWAY(code=%d) to a conforming server", g.Code)}
	}
	return nil
}

func c02Nontrivial(w *CliWorld) bool {
	// ≥2 requests in flight together and responses interleaved (frames of ≥2 streams alternate in what the server sent)
	overlap := false
	for i := 0; i < len(w.callers) && !overlap; i++ {
		for j := i + 1; j < len(w.callers); j++ {
			a, b := w.Streams[w.ridStream[i]], w.Streams[w.ridStream[j]]
			ca, cb := w.callers[i], w.callers[j]
			if a != nil && b != nil && a.HeadersAt <= cb.retStep && b.HeadersAt <= ca.retStep {
				overlap = true
				break
			}
		}
	}
	return overlap && len(w.streamOrder) >= 2
}

// RunCli executes one client-side plan: workload, drain, final oracle, teardown.
func RunCli(plan *CliPlan, tape *Tape, searchSeed uint64, prop string, online func(*CliWorld) *Violation, final func(*CliWorld) *Violation, post func(*CliWorld, *RunResult)) *RunResult {
	return RunCliLate(plan, tape, searchSeed, prop, online, final, nil, post)
}

// RunCliLate is RunCli with an oracle evaluated after the teardown (local Close, server gone, a minute of fake time).
func RunCliLate(plan *CliPlan, tape *Tape, searchSeed uint64, prop string, online func(*CliWorld) *Violation, final func(*CliWorld) *Violation, late func(*CliWorld) *Violation, post func(*CliWorld, *RunResult)) *RunResult {
	res := &RunResult{Property: prop, Family: plan.Family}
	sim := NewSim(tape, NewRNG(searchSeed))
	w := NewCliWorld(sim, plan)
	w.online = online
	sim.RunPhase(w, 0, plan.Strategy.TimeRace > 0)
	if sim.Viol == nil {
		w.phase = 1
		sim.RunPhase(w, 0, false)
	}
	if sim.Viol == nil && sim.Steps < sim.MaxSteps && plan.NoPingAck && plan.PingInterval > 0 && !plan.DisablePingChecking {
		// a server that answers no PING: the client's own check has to end the connection, and with it every request
		// that is still waiting, before anybody closes anything
		sim.RunPhase(w, 10*plan.PingInterval, false)
		w.srvReceive()
		w.drainEvents()
		inWrite := false
		for _, g := range w.aliveList() {
			inWrite = inWrite || strings.Contains(g, "cli.Write") // parked in the transport: no PING can go out, nothing to time
		}
		for k, c := range w.callers {
			if c.started && !c.returned && !c.cancelOffered && !inWrite {
				sim.Viol = &Violation{Property: prop, Rule: "ping-timeout-missed", Sig: "ping-timeout-missed/" + blockedSig(w.aliveSys()),
					Detail: fmt.Sprintf("the server has acknowledged no PING for ten ping intervals (%v each, acknowledgements are checked) but caller %d is still waiting on Ctx.Err; goroutines: %s", plan.PingInterval, k, strings.Join(w.aliveList(), "; "))}
				break
			}
		}
	}
	if sim.Viol == nil && sim.Steps < sim.MaxSteps && final != nil {
		w.srvReceive()
		w.drainEvents()
		if v := final(w); v != nil {
			sim.Viol = v
		}
	}
	if sim.Viol == nil && sim.Steps < sim.MaxSteps {
		w.phase = 2
		w.closeConn()
		sim.RunPhase(w, 5*time.Second, false)
		w.PeerClose()
		sim.RunPhase(w, time.Minute, false)
		w.Check()
		if sim.Viol == nil && sim.Steps < sim.MaxSteps && late != nil {
			w.srvReceive()
			w.drainEvents()
			if v := late(w); v != nil {
				sim.Viol = v
			}
		}
	}
	if post != nil {
		post(w, res)
	}
	res.Probes = w.Probes
	res.Extra = w.ExtraViol
	res.PoolViol = len(sim.R.Pools.Viol)
	res.Summary = w.Summary()
	sim.finish(res)
	return res
}
