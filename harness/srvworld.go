package harness

import (
	"bytes"
	"encoding/hex"
	"errors"
	"fmt"
	"io"
	"os"
	"sort"
	"strconv"
	"strings"
	"time"

	"github.com/dgrr/http2"
	"github.com/valyala/fasthttp"
	xh2 "golang.org/x/net/http2"
	"golang.org/x/net/http2/hpack"

	"simrt"
)

// memLogger is the fasthttp.Logger handed to the server: appends to memory, nothing else.
type memLogger struct{ lines []string }

func (l *memLogger) Printf(format string, args ...interface{}) {
	if os.Getenv("VERIF_SRV_DEBUG") != "" && len(l.lines) < 4000 {
		fmt.Fprintf(os.Stderr, "SRV: "+format, args...)
	}
	if len(l.lines) < 2000 {
		l.lines = append(l.lines, fmt.Sprintf(format, args...))
	}
}

// Snapshot is what a handler saw through the fasthttp API.
type Snapshot struct {
	Method, URI, Host, Proto string
	Fields                   []HF // every header as iterated by All(), names lower-cased
	Body                     []byte
	ContentLength            int
	UserAgent, ContentType   string
}

type handlerEvent struct {
	kind string // enter | exit
	rid  int
	snap *Snapshot
	gate chan struct{}
	name string
	gor  string        // logical goroutine name
	at   time.Duration // fake time of the event
}

// laneState is the run-time state of a lane.
type laneState struct {
	idx       int
	lane      *Lane
	next      int      // next op
	queue     [][]byte // frames already encoded (rest of a header block) that must go out before the next op
	id        uint32   // stream id once assigned
	bodyOff   int
	sentAll   bool
	keepBlock bool
	peerRST   bool // the peer itself reset the lane's stream
	// sender-side flow control for this stream (peer → server)
	sendWin   int64
	opsSent   int
	openedAt  int           // scheduler step at which the lane's stream was opened
	openedNow time.Duration // fake time at which the lane\'s stream was opened
}

// PeerStream is what the peer has observed on one stream of the server's output.
type PeerStream struct {
	ID         uint32
	Lane       int // -1 unknown
	HdrBlocks  [][]HF
	blockBuf   []byte
	blockOpen  bool
	blockES    bool
	Status     string
	Data       []byte
	DataFrames int
	EndStreams int
	RST        []uint32
	AfterEnd   []string // frames seen after END_STREAM or after RST
	FirstAt    int
	RSTNow     time.Duration
	DoneAt     int
	// receive-side ledger (C06): bytes of DATA payload (incl. padding) received
	RecvBytes int64
	Granted   int64 // stream window granted so far (initial + WINDOW_UPDATEs sent, in the permissive reading)
	DecodeErr string
	Order     []string // frame kinds in order, for the HEADERS-then-DATA rule
}

type gate struct {
	rid  int
	name string
	gor  string
	ch   chan struct{}
	open bool
}

// SrvWorld is a real server on a simulated connection plus the scripted peer.
type SrvWorld struct {
	sim  *Sim
	plan *SrvPlan

	conn     *Conn
	c2s, s2c *Dir
	fw       *FrameWriter
	fr       FrameReader
	enc      *RefEncoder
	dec      *hpack.Decoder
	decOut   []hpack.HeaderField

	log *memLogger

	served   chan error
	Returned bool
	RetErr   error
	RetStep  int

	lanes      []*laneState
	blockOwner *laneState
	nextID     uint32
	skippedID  uint32
	fcSent     int64 // flow-controlled octets the peer has sent (padding included)
	opsSent    int

	// peer as sender: windows advertised by the server
	srvInitWin  int64
	sendConnWin int64
	srvSettings map[uint16]uint32
	srvMaxFrame int64

	// peer as receiver
	Frames            []*Frame
	Streams           map[uint32]*PeerStream
	streamOrder       []uint32
	EndedBeforeGoAway map[uint32]bool // streams on which the server's END_STREAM arrived before its first GOAWAY
	GoAwayNow         time.Duration   // fake time at which the first GOAWAY arrived
	GoAways           []*Frame
	SettingsAcks      int
	SettingsSeen      int
	PingAcks          int
	PeerEOF           bool // peer saw the server close
	stallS2C          bool
	tblWatch          tableWatch
	connRecv          int64
	connGranted       int64
	peerInitWin       int64
	winUpdates        []*Frame
	contStream        uint32 // server-side header block open on this stream (CONTINUATION expected)

	// handlers
	hev      chan handlerEvent
	gates    []*gate
	Entries  map[int]int       // rid → number of handler entries
	Snaps    map[int]*Snapshot // rid → first snapshot
	Gauge    int
	GaugeHWM int
	Exits    map[int]int
	EnterNow map[int]time.Duration // fake time of the first handler entry per request
	EntrySeq []string              // "enter rid" / "exit rid" in order with step numbers

	faultsDone map[int]bool
	phase      int // 0 workload, 1 drain (no faults, all gates open eagerly), 2 teardown

	online  func(w *SrvWorld) *Violation
	onFrame func(w *SrvWorld, f *Frame)
	Probes  map[string]int
	Harness string // non-empty: harness bug, not a verdict

	SettingsSentByPeer int
	PeerSettingsLog    []PeerSettingsEvent
	PingsSent          int
	peerGone           bool // the peer has closed its sending side
	ctlQueue           [][]byte
	offenceCut         bool // the connection was cut before the offence could be delivered
	ExtraViol          []*Violation
	PoolStats          []simrt.PoolStat
	wuChecked          int
	manualLanes        bool // lanes are driven by the runner itself (C08 walks), not offered as environment actions
	c08Rest            []byte
	FrameSizeViol      *Violation
	allowedTable       int64
	AckViol            *Violation
	pendingTableLower  []int64                      // HEADER_TABLE_SIZE decreases waiting for their ACK, by SETTINGS index
	atQuiescence       func(w *SrvWorld) *Violation // evaluated after phase 0 and phase 1 each reached quiescence

	// receive-side ledger of the peer (C06): SETTINGS_INITIAL_WINDOW_SIZE / MAX_FRAME_SIZE values the
	// peer has sent, in order; ackedSettings of them have been acknowledged by the server
	peerSettingsVals []peerSettingsVal
	ackedSettings    int
	ackedInitWin     int64
	ackedMaxFrame    int64
	streamWupd       map[uint32]int64 // stream WINDOW_UPDATE increments the peer has sent, per stream
	LedgerViol       *Violation
}

type peerSettingsVal struct {
	hasInit    bool
	init       int64
	hasFrame   bool
	frame      int64
	hasStreams bool
	streams    int64
	hasTable   bool
	table      int64
}

// permissiveInit is the largest initial stream window the server may legitimately believe in.
func (w *SrvWorld) permissiveInit() int64 {
	m := w.ackedInitWin
	for _, v := range w.peerSettingsVals[min(w.ackedSettings, len(w.peerSettingsVals)):] {
		if v.hasInit && v.init > m {
			m = v.init
		}
	}
	return m
}

func (w *SrvWorld) permissiveMaxFrame() int64 {
	m := w.ackedMaxFrame
	for _, v := range w.peerSettingsVals[min(w.ackedSettings, len(w.peerSettingsVals)):] {
		if v.hasFrame && v.frame > m {
			m = v.frame
		}
	}
	return m
}

func (w *SrvWorld) noteSettingsSent(kv [][2]uint32) {
	var v peerSettingsVal
	for _, s := range kv {
		switch s[0] {
		case 1:
			v.hasTable, v.table = true, int64(s[1])
		case 4:
			v.hasInit, v.init = true, int64(s[1])
		case 5:
			v.hasFrame, v.frame = true, int64(s[1])
		}
	}
	if v.hasTable {
		w.tblWatch.sent(v.table)
	}
	w.peerSettingsVals = append(w.peerSettingsVals, v)
}

func (w *SrvWorld) noteSettingsAcked() {
	if w.ackedSettings < len(w.peerSettingsVals) {
		v := w.peerSettingsVals[w.ackedSettings]
		if v.hasTable {
			m := v.table
			for _, u := range w.peerSettingsVals[w.ackedSettings+1:] {
				if u.hasTable && u.table > m {
					m = u.table
				}
			}
			w.tblWatch.acked(m)
		}
		if v.hasTable && v.table < w.allowedTable {
			// permissive: later, not yet acknowledged SETTINGS may raise it again
			m := v.table
			for _, u := range w.peerSettingsVals[w.ackedSettings+1:] {
				if u.hasTable && u.table > m {
					m = u.table
				}
			}
			w.allowedTable = m
			w.dec.SetAllowedMaxDynamicTableSize(uint32(m))
		}
		if v.hasInit {
			w.ackedInitWin = v.init
		}
		if v.hasFrame {
			w.ackedMaxFrame = v.frame
		}
	}
	w.ackedSettings++
}

func kindMask(names []string) (m [simrt.NKinds]bool) {
	m[simrt.KUnlock] = true // park points right after an unlock are off unless the plan switches them on
	for _, n := range names {
		if n == "unlock-on" {
			m[simrt.KUnlock] = false
			continue
		}
		for k := simrt.Kind(0); int(k) < simrt.NKinds; k++ {
			if k.String() == n {
				m[k] = true
			}
		}
	}
	return
}

// NewSrvWorld builds the world and starts the server. Must be called inside the bubble after NewSim.
func NewSrvWorld(sim *Sim, plan *SrvPlan) *SrvWorld {
	w := &SrvWorld{sim: sim, plan: plan, fw: NewFrameWriter(), enc: NewRefEncoder(), log: &memLogger{},
		served: make(chan error, 1), nextID: 1, Streams: map[uint32]*PeerStream{}, hev: make(chan handlerEvent, 4096),
		Entries: map[int]int{}, EnterNow: map[int]time.Duration{}, Snaps: map[int]*Snapshot{}, Exits: map[int]int{}, faultsDone: map[int]bool{}, Probes: map[string]int{},
		srvInitWin: 65535, sendConnWin: 65535, srvSettings: map[uint16]uint32{}, srvMaxFrame: 16384}
	sim.R.Mask = kindMask(plan.Mask)
	sim.R.Pools.Policy = plan.PoolPol
	sim.Strat = plan.Strategy
	sim.SelSeed = plan.SelSeed
	if plan.MaxSteps > 0 {
		sim.MaxSteps = plan.MaxSteps
	}
	w.c2s = NewDir("c2s", plan.Peer.LinkCap)
	w.s2c = NewDir("s2c", plan.Peer.LinkCap)
	w.s2c.MarkWrites = plan.Trail == "idle"
	w.conn = &Conn{Name: "srv", R: w.c2s, W: w.s2c}
	tbl := uint32(4096)
	if plan.Peer.HeaderTableSize >= 0 {
		tbl = uint32(plan.Peer.HeaderTableSize)
	}
	w.dec = hpack.NewDecoder(tbl, func(f hpack.HeaderField) { w.decOut = append(w.decOut, f) })
	w.tblWatch = newTableWatch()
	w.allowedTable = int64(tbl)
	w.peerInitWin = 65535
	if plan.Peer.InitialWindow >= 0 {
		w.peerInitWin = plan.Peer.InitialWindow
	}
	w.connGranted = 65535 + int64(plan.Peer.ConnWindowBoost)
	for i := range plan.Lanes {
		w.lanes = append(w.lanes, &laneState{idx: i, lane: &plan.Lanes[i]})
	}

	fs := &fasthttp.Server{
		Handler:            w.handler,
		ReadTimeout:        plan.Srv.ReadTimeout,
		IdleTimeout:        plan.Srv.IdleTimeout,
		MaxRequestBodySize: plan.Srv.MaxRequestBodySize,
		Logger:             w.log,
	}
	s2 := http2.ConfigureServer(fs, http2.ServerConfig{
		PingInterval:         plan.Srv.PingInterval,
		MaxConcurrentStreams: plan.Srv.MaxConcurrentStreams,
		MaxHeaderListSize:    plan.Srv.MaxHeaderListSize,
		Debug:                os.Getenv("VERIF_SRV_DEBUG") != "",
	})
	// preface: always one piece (ReadPreface does a single Read); then the peer's SETTINGS
	w.c2s.Readable = append(w.c2s.Readable, xh2.ClientPreface...)
	var st []xh2.Setting
	if plan.Peer.HeaderTableSize >= 0 {
		st = append(st, xh2.Setting{ID: xh2.SettingHeaderTableSize, Val: uint32(plan.Peer.HeaderTableSize)})
	}
	if plan.Peer.InitialWindow >= 0 {
		st = append(st, xh2.Setting{ID: xh2.SettingInitialWindowSize, Val: uint32(plan.Peer.InitialWindow)})
	}
	if plan.Peer.MaxFrameSize >= 0 {
		st = append(st, xh2.Setting{ID: xh2.SettingMaxFrameSize, Val: uint32(plan.Peer.MaxFrameSize)})
	}
	w.c2s.Inject(w.fw.Settings(st...))
	w.SettingsSentByPeer = 1
	w.ackedInitWin, w.ackedMaxFrame = 65535, 16384
	w.streamWupd = map[uint32]int64{}
	var first [][2]uint32
	for _, x := range st {
		first = append(first, [2]uint32{uint32(x.ID), x.Val})
	}
	w.noteSettingsSent(first)
	if plan.Peer.ConnWindowBoost > 0 {
		w.c2s.Inject(w.fw.WindowUpdate(0, plan.Peer.ConnWindowBoost))
	}
	conn := w.conn
	served := w.served
	simrt.Go("ServeConn", func() {
		served <- s2.ServeConn(conn)
	})
	return w
}

// ---- handler side (runs on goroutines the server spawned) ----

func appSnapshot(ctx *fasthttp.RequestCtx) *Snapshot {
	s := &Snapshot{
		Method:        string(ctx.Method()),
		URI:           string(ctx.RequestURI()),
		Host:          string(ctx.Host()),
		Proto:         string(ctx.Request.Header.Protocol()),
		Body:          append([]byte(nil), ctx.Request.Body()...),
		ContentLength: ctx.Request.Header.ContentLength(),
		UserAgent:     string(ctx.Request.Header.UserAgent()),
		ContentType:   string(ctx.Request.Header.ContentType()),
	}
	for k, v := range ctx.Request.Header.All() {
		s.Fields = append(s.Fields, HF{strings.ToLower(string(k)), string(v)})
	}
	return s
}

type planReader struct {
	data  []byte
	off   int
	sizes []int
	k     int
	errAt int
	eofWD bool
}

func (r *planReader) Read(p []byte) (int, error) {
	if r.errAt >= 0 && r.off >= r.errAt {
		return 0, errors.New("injected body reader error")
	}
	if r.off >= len(r.data) {
		return 0, io.EOF
	}
	n := len(p)
	if len(r.sizes) > 0 {
		s := r.sizes[r.k%len(r.sizes)]
		r.k++
		if s > 0 && s < n {
			n = s
		}
	}
	if n > len(r.data)-r.off {
		n = len(r.data) - r.off
	}
	if r.errAt >= 0 && r.off+n > r.errAt {
		n = r.errAt - r.off
		if n == 0 {
			return 0, errors.New("injected body reader error")
		}
	}
	copy(p, r.data[r.off:r.off+n])
	r.off += n
	if r.eofWD && r.off >= len(r.data) {
		return n, io.EOF
	}
	return n, nil
}

// RespBody is the deterministic body of a response: a function of the request id and the length.
func RespBody(rid, n int) []byte {
	b := make([]byte, n)
	tag := "<resp " + strconv.Itoa(rid) + ">"
	for i := range b {
		b[i] = tag[i%len(tag)]
	}
	return b
}

func (w *SrvWorld) handler(ctx *fasthttp.RequestCtx) {
	snap := appSnapshot(ctx)
	rid := -1
	for _, f := range snap.Fields {
		if f.Name == "x-rid" {
			if n, err := strconv.Atoi(f.Value); err == nil {
				rid = n
			}
		}
	}
	g := make(chan struct{}, 1)
	name := "h" + strconv.Itoa(rid)
	simrt.Own(ctx, name)
	w.hev <- handlerEvent{kind: "enter", rid: rid, snap: snap, gate: g, name: name, gor: simrt.SelfName(), at: w.sim.Now()}
	if w.plan.GateMode != "open" {
		<-g
		simrt.UserYield("handler.gate")
	}
	var resp *Resp
	if rid >= 0 && rid < len(w.plan.Lanes) {
		resp = w.plan.Lanes[rid].Resp
	}
	if resp == nil {
		resp = &Resp{Status: 200, Mode: "buffered", ErrAt: -1}
	}
	defer func() {
		simrt.Disown(ctx)
		w.hev <- handlerEvent{kind: "exit", rid: rid}
	}()
	if resp.Panic {
		panic("injected handler panic")
	}
	ctx.SetStatusCode(resp.Status)
	for _, f := range resp.Fields {
		ctx.Response.Header.Add(f.Name, f.Value)
	}
	body := RespBody(rid, resp.BodyLen)
	switch resp.Mode {
	case "stream-declared":
		ctx.SetBodyStream(&planReader{data: body, sizes: resp.ReadSizes, errAt: resp.ErrAt, eofWD: resp.EOFWithData}, len(body))
	case "stream-unknown":
		ctx.SetBodyStream(&planReader{data: body, sizes: resp.ReadSizes, errAt: resp.ErrAt, eofWD: resp.EOFWithData}, -1)
	case "stream-zero":
		ctx.SetBodyStream(&planReader{data: nil, errAt: -1}, 0)
	default:
		ctx.SetBody(body)
	}
}

// ---- scheduler side ----

// drainEvents moves handler events into world state. Called at every quiescent point.
func (w *SrvWorld) drainEvents() {
	for {
		select {
		case ev := <-w.hev:
			switch ev.kind {
			case "enter":
				w.Entries[ev.rid]++
				if _, ok := w.EnterNow[ev.rid]; !ok {
					w.EnterNow[ev.rid] = ev.at
				}
				if w.Snaps[ev.rid] == nil {
					w.Snaps[ev.rid] = ev.snap
				}
				w.Gauge++
				if w.Gauge > w.GaugeHWM {
					w.GaugeHWM = w.Gauge
				}
				w.gates = append(w.gates, &gate{rid: ev.rid, name: ev.name, gor: ev.gor, ch: ev.gate, open: w.plan.GateMode == "open"})
				w.EntrySeq = append(w.EntrySeq, itoa(w.sim.Steps)+" enter "+itoa(ev.rid))
				w.sim.Obs("enter " + itoa(ev.rid) + " " + ev.snap.Method + " " + ev.snap.URI + " " + itoa(len(ev.snap.Body)))
			case "exit":
				w.Gauge--
				w.Exits[ev.rid]++
				w.EntrySeq = append(w.EntrySeq, itoa(w.sim.Steps)+" exit "+itoa(ev.rid))
			}
		default:
			return
		}
	}
}

func (w *SrvWorld) stream(id uint32) *PeerStream {
	ps := w.Streams[id]
	if ps == nil {
		ps = &PeerStream{ID: id, Lane: -1, FirstAt: w.sim.Steps, Granted: w.peerInitWin}
		for _, l := range w.lanes {
			if l.id == id {
				ps.Lane = l.idx
			}
		}
		w.Streams[id] = ps
		w.streamOrder = append(w.streamOrder, id)
	}
	return ps
}

// peerReceive consumes delivered server→peer bytes: parse frames, keep the ledgers, auto-reply.
func (w *SrvWorld) peerReceive() {
	b := w.s2c.Take()
	if len(b) > 0 {
		w.fr.Feed(b)
	}
	for {
		f := w.fr.Next()
		if f == nil {
			break
		}
		f.At = w.sim.Steps
		w.Frames = append(w.Frames, f)
		w.sim.Logf("peer<< %s", f)
		w.sim.Obs(f.String())
		w.onPeerFrame(f)
		if w.onFrame != nil {
			w.onFrame(w, f)
		}
	}
	if w.s2c.EOF && len(w.s2c.Inflight) == 0 && len(w.s2c.Readable) == 0 {
		w.PeerEOF = true
	}
}

func (w *SrvWorld) onPeerFrame(f *Frame) {
	if int64(f.Len) > w.permissiveMaxFrame() && w.FrameSizeViol == nil {
		w.FrameSizeViol = &Violation{Property: "C18", Rule: "frame-over-peer-max", Sig: "frame-over-peer-max/" + ftName(f.Type),
			Detail: fmt.Sprintf("%s frame #%d with a payload of %d bytes; the peer's SETTINGS_MAX_FRAME_SIZE is %d (most permissive reading: %d SETTINGS sent, %d acknowledged)", ftName(f.Type), f.Seq, f.Len, w.permissiveMaxFrame(), len(w.peerSettingsVals), w.ackedSettings)}
	}
	if f.Type == FSettings && f.Ack && w.SettingsAcks+1 > w.SettingsSentByPeer && w.AckViol == nil {
		w.AckViol = &Violation{Property: "C18", Rule: "ack-without-settings", Sig: "ack-without-settings",
			Detail: fmt.Sprintf("SETTINGS ACK #%d received after only %d SETTINGS frames were sent", w.SettingsAcks+1, w.SettingsSentByPeer)}
	}
	if w.contStream != 0 && (f.Type != FContinuation || f.Stream != w.contStream) {
		w.Probes["server-interleaved-header-block"]++
	}
	switch f.Type {
	case FSettings:
		if f.Ack {
			w.SettingsAcks++
			w.noteSettingsAcked()
			return
		}
		w.SettingsSeen++
		for _, s := range f.Settings {
			w.srvSettings[uint16(s.ID)] = s.Val
			switch s.ID {
			case xh2.SettingInitialWindowSize:
				delta := int64(s.Val) - w.srvInitWin
				w.srvInitWin = int64(s.Val)
				for _, l := range w.lanes {
					if l.id != 0 {
						l.sendWin += delta
					}
				}
			case xh2.SettingMaxFrameSize:
				w.srvMaxFrame = int64(s.Val)
			}
		}
		w.ctl(w.fw.SettingsAck())
	case FPing:
		if f.Ack {
			w.PingAcks++
		} else {
			w.ctl(w.fw.Ping(true, f.Ping))
		}
	case FWindowUpdate:
		w.winUpdates = append(w.winUpdates, f)
		if f.Stream == 0 {
			w.sendConnWin += int64(f.Incr)
		} else {
			for _, l := range w.lanes {
				if l.id == f.Stream {
					l.sendWin += int64(f.Incr)
				}
			}
		}
	case FGoAway:
		if len(w.GoAways) == 0 {
			w.GoAwayNow = w.sim.Now()
			if t := w.s2c.WrittenAt(f.Off); !t.IsZero() {
				w.GoAwayNow = t.Sub(w.sim.Start) // when the server wrote it, not when the peer got to read it
			}
			w.EndedBeforeGoAway = map[uint32]bool{}
			for id, ps := range w.Streams {
				if ps.EndStreams > 0 {
					w.EndedBeforeGoAway[id] = true
				}
			}
		}
		w.GoAways = append(w.GoAways, f)
	case FHeaders, FContinuation:
		ps := w.stream(f.Stream)
		if ps.EndStreams > 0 || len(ps.RST) > 0 {
			ps.AfterEnd = append(ps.AfterEnd, f.String())
		}
		ps.Order = append(ps.Order, ftName(f.Type))
		if f.Type == FHeaders {
			ps.blockBuf = ps.blockBuf[:0]
			ps.blockOpen = true
			ps.blockES = f.EndStream
		}
		ps.blockBuf = append(ps.blockBuf, f.Block...)
		if f.EndHeaders {
			w.contStream = 0
			ps.blockOpen = false
			w.decOut = w.decOut[:0]
			if l, ok := w.tblWatch.beforeBlock(); ok {
				w.dec.SetMaxDynamicTableSize(uint32(l))
			}
			_, err := w.dec.Write(ps.blockBuf)
			if err == nil {
				err = w.dec.Close()
			}
			if err != nil {
				ps.DecodeErr = err.Error()
			} else {
				w.tblWatch.block(ps.blockBuf)
			}
			var hfs []HF
			for _, h := range w.decOut {
				hfs = append(hfs, HF{h.Name, h.Value})
				if h.Name == ":status" && ps.Status == "" {
					ps.Status = h.Value
				}
			}
			ps.HdrBlocks = append(ps.HdrBlocks, hfs)
			if ps.blockES {
				ps.EndStreams++
				ps.DoneAt = w.sim.Steps
			}
		} else {
			w.contStream = f.Stream
		}
	case FData:
		ps := w.stream(f.Stream)
		if ps.EndStreams > 0 || len(ps.RST) > 0 {
			ps.AfterEnd = append(ps.AfterEnd, f.String())
		}
		ps.Order = append(ps.Order, "DATA")
		ps.Data = append(ps.Data, f.Data...)
		ps.DataFrames++
		ps.RecvBytes += int64(f.Len)
		w.connRecv += int64(f.Len)
		w.ledgerCheck(ps, f)
		if f.EndStream {
			ps.EndStreams++
			ps.DoneAt = w.sim.Steps
		}
		if w.plan.Peer.AutoWindow && f.Len > 0 {
			w.connGranted += int64(f.Len)
			w.ctl(w.fw.WindowUpdate(0, uint32(f.Len)))
			if !f.EndStream {
				w.streamWupd[f.Stream] += int64(f.Len)
				w.ctl(w.fw.WindowUpdate(f.Stream, uint32(f.Len)))
			}
		}
	case FRST:
		ps := w.stream(f.Stream)
		if ps.EndStreams > 0 || len(ps.RST) > 0 {
			ps.AfterEnd = append(ps.AfterEnd, f.String())
		}
		ps.RST = append(ps.RST, f.Code)
		ps.DoneAt = w.sim.Steps
		if ps.RSTNow == 0 {
			ps.RSTNow = w.sim.Now() + 1 // fake time of the first RST_STREAM (+1: zero means none)
		}
	}
}

// ctl sends a connection-level frame of the peer's own (ACKs, window grants). While one of the
// peer's header blocks is open nothing may be interleaved (RFC 7540 §6.10), so it is queued.
func (w *SrvWorld) ctl(b []byte) {
	if w.blockOwner != nil {
		w.ctlQueue = append(w.ctlQueue, b)
		return
	}
	w.c2s.Inject(b)
}

func (w *SrvWorld) flushCtl() {
	if w.blockOwner != nil {
		return
	}
	for _, b := range w.ctlQueue {
		w.c2s.Inject(b)
	}
	w.ctlQueue = nil
}

// ledgerCheck is the C06 running inequality, evaluated on the server's output in order.
func (w *SrvWorld) ledgerCheck(ps *PeerStream, f *Frame) {
	if w.LedgerViol != nil && !strings.HasSuffix(w.LedgerViol.Sig, "/after-acked-decrease") {
		return
	}
	mk := func(rule, d string) {
		if w.LedgerViol != nil && strings.HasSuffix(rule, "/after-acked-decrease") {
			return // keep the first one of this kind; only a different kind replaces it
		}
		w.LedgerViol = &Violation{Property: "C06", Rule: strings.SplitN(rule, "/", 2)[0], Sig: rule, Detail: fmt.Sprintf("stream %d, DATA frame #%d of the connection (len %d): %s", ps.ID, f.Seq, f.Len, d)}
	}
	if int64(f.Len) > w.permissiveMaxFrame() {
		mk("frame-too-large", fmt.Sprintf("payload exceeds the peer's SETTINGS_MAX_FRAME_SIZE %d", w.permissiveMaxFrame()))
		return
	}
	if f.Len == 0 {
		return
	}
	if w.connRecv > w.connGranted {
		mk("conn-window-overrun", fmt.Sprintf("connection total %d > granted %d", w.connRecv, w.connGranted))
		return
	}
	allowed := w.permissiveInit() + w.streamWupd[ps.ID]
	if ps.RecvBytes > allowed {
		// discriminator: would the frame have been legal under the largest initial window the peer ever
		// advertised? then it can only be explained by a SETTINGS decrease that was acknowledged before it
		// was applied; otherwise the window arithmetic itself is wrong.
		maxEver := int64(65535)
		for _, v := range w.peerSettingsVals {
			if v.hasInit && v.init > maxEver {
				maxEver = v.init
			}
		}
		kind := "plain"
		if ps.RecvBytes <= maxEver+w.streamWupd[ps.ID] && w.ackedSettings > 1 {
			kind = "after-acked-decrease"
		}
		mk("stream-window-overrun/"+kind, fmt.Sprintf("stream total %d > granted %d (initial %d in the most permissive reading + WINDOW_UPDATEs %d); %d of the peer's SETTINGS acknowledged so far", ps.RecvBytes, allowed, w.permissiveInit(), w.streamWupd[ps.ID], w.ackedSettings))
		return
	}
	if w.connRecv == w.connGranted || ps.RecvBytes == allowed {
		w.Probes["window-bound"]++
	}
}

// SettingsSentByPeer counts SETTINGS (non-ACK) frames the peer has sent.
func (w *SrvWorld) settingsSent() int { return w.SettingsSentByPeer }

func splitBlock(blk []byte, permille []int) [][]byte {
	var cuts []int
	for _, p := range permille {
		c := len(blk) * p / 1000
		if c > 0 && c < len(blk) {
			cuts = append(cuts, c)
		}
	}
	sort.Ints(cuts)
	var out [][]byte
	last := 0
	for _, c := range cuts {
		if c == last {
			continue
		}
		out = append(out, blk[last:c])
		last = c
	}
	out = append(out, blk[last:])
	// no fragment larger than the receiver's SETTINGS_MAX_FRAME_SIZE (16384 on both sides here), with room for the
	// padding and priority fields the first frame may carry
	const limit = 16000
	var fit [][]byte
	for _, p := range out {
		for len(p) > limit {
			fit = append(fit, p[:limit])
			p = p[limit:]
		}
		fit = append(fit, p)
	}
	return fit
}

func (w *SrvWorld) refID(l *laneState, op *Op) uint32 {
	if op.LaneRef > 0 {
		return w.lanes[op.LaneRef-1].id
	}
	switch {
	case op.StreamRef == -2:
		return w.skippedID
	case op.StreamRef < 0:
		return 0
	case op.StreamRef > 0:
		return uint32(op.StreamRef)
	}
	return l.id
}

// laneEnabled reports whether the lane's next frame may be sent now.
func (w *SrvWorld) laneEnabled(l *laneState) bool {
	if l.sentAll || w.peerGone {
		return false
	}
	if w.blockOwner != nil && w.blockOwner != l {
		// the rest of the owner's header block may come from another lane, as raw CONTINUATION frames on its stream
		if !(l.next < len(l.lane.Ops) && len(l.queue) == 0 && l.lane.Ops[l.next].Kind == "raw" && l.lane.Ops[l.next].RawType == FContinuation &&
			l.lane.Ops[l.next].LaneRef == w.blockOwner.idx+1) {
			return false
		}
	}
	if len(l.queue) > 0 {
		return true
	}
	if l.next >= len(l.lane.Ops) {
		return false
	}
	if l.lane.Offender != "" && l.id != 0 && l.next > 0 {
		// a conforming peer stops sending on a stream once it has *received* the server's RST_STREAM or
		// END_STREAM for it; what it sent before that is "in flight"
		if ps := w.Streams[l.id]; ps != nil && (len(ps.RST) > 0 || ps.EndStreams > 0) && w.blockOwner != l {
			l.sentAll = true
			l.next = len(l.lane.Ops)
			w.Probes["offender-stopped-after-rst"]++
			return false
		}
	}
	if l.next == 0 && l.lane.After == -3 {
		// "after everything else" is judged with every goroutine of the server at rest: a handler that has been dispatched
		// has then entered, one that has returned has handed its slot back (the stream loop has taken it off handlerDone).
		// Without this the request could overtake the slot of a stream that was reset while its handler was about to
		// start or about to report back, and be refused - correctly (seen once in 161 000 runs of the thorough tier).
		if len(w.sim.enabledG()) > 0 {
			return false
		}
		for _, a := range w.lanes[:l.idx] {
			if len(a.lane.Ops) == 0 {
				continue
			}
			if !a.sentAll {
				return false
			}
			if a.id != 0 && !a.peerRST {
				ps := w.Streams[a.id]
				if ps == nil || (ps.EndStreams == 0 && len(ps.RST) == 0) {
					return false
				}
			}
			// a stream that was reset (by the peer, or by the server for a stream error) keeps its concurrency slot until
			// its handler returns (documented, C13): "everything before is finished" includes those handlers
			if ps := w.Streams[a.id]; (a.peerRST || (a.id != 0 && ps != nil && len(ps.RST) > 0)) && w.Entries[a.idx] != w.Exits[a.idx] {
				return false
			}
		}
	}
	if l.next == 0 && l.lane.After == -2 {
		// wait for every lane that started unconditionally to have been answered
		for _, a := range w.lanes {
			if a.lane.After != -1 || a == l {
				continue
			}
			ps := w.Streams[a.id]
			if !a.sentAll || ps == nil || (ps.EndStreams == 0 && len(ps.RST) == 0) {
				return false
			}
		}
	}
	if l.next == 0 && l.lane.After >= 0 {
		a := w.lanes[l.lane.After]
		if !a.sentAll {
			return false
		}
		if l.lane.AfterResp {
			ps := w.Streams[a.id]
			if ps == nil || (ps.EndStreams == 0 && len(ps.RST) == 0) {
				return false
			}
		}
	}
	op := &l.lane.Ops[l.next]
	if op.LaneRef > 0 && w.lanes[op.LaneRef-1].id == 0 {
		return false
	}
	switch op.Kind {
	case "data":
		if op.Len > 0 || op.Pad >= 0 {
			need := int64(op.Len)
			if op.Pad >= 0 {
				need += int64(op.Pad) + 1
			}
			if need > w.sendConnWin || need > l.sendWin {
				return false
			}
		}
	case "wait-resp":
		ps := w.Streams[l.id]
		return ps != nil && (ps.EndStreams > 0 || len(ps.RST) > 0)
	case "wait-handler":
		return w.Entries[l.idx] > 0
	case "wait-open":
		return op.Len >= 0 && op.Len < len(w.lanes) && w.lanes[op.Len].id != 0
	case "wait-resp-start":
		ps := w.Streams[l.id]
		return ps != nil && (len(ps.HdrBlocks) > 0 || len(ps.RST) > 0)
	}
	return true
}

// laneSend sends the lane's next frame.
func (w *SrvWorld) laneSend(l *laneState) {
	defer w.flushCtl()
	defer func() {
		if len(l.queue) == 0 && l.next >= len(l.lane.Ops) {
			l.sentAll = true
		}
	}()
	if len(l.queue) > 0 {
		fb := l.queue[0]
		l.queue = l.queue[1:]
		w.c2s.Inject(fb)
		if len(l.queue) == 0 && w.blockOwner == l && !l.keepBlock {
			w.blockOwner = nil
		}
		return
	}
	op := &l.lane.Ops[l.next]
	l.next++
	l.opsSent++
	w.opsSent++
	if l.id == 0 && l.lane.OpensStream && op.StreamRef == 0 && op.LaneRef == 0 && op.Kind != "settings" && op.Kind != "ping" && op.Kind != "goaway" {
		if l.lane.SkipID {
			w.skippedID = w.nextID
			w.nextID += 2
		}
		l.id = w.nextID
		l.openedAt = w.sim.Steps
		l.openedNow = w.sim.Now()
		w.nextID += 2
		l.sendWin = w.srvInitWin
		if ps := w.Streams[l.id]; ps != nil {
			ps.Lane = l.idx
		}
	}
	id := w.refID(l, op)
	switch op.Kind {
	case "headers", "trailers":
		if op.TableSize >= 0 {
			w.enc.SetTableSize(uint32(op.TableSize))
		}
		blk, err := w.enc.EncodeBlock(op.Fields, op.Reps)
		if err != nil {
			w.Harness = err.Error()
			return
		}
		parts := splitBlock(blk, op.Splits)
		dep := uint32(0)
		switch {
		case op.PrioDep < 0:
			dep = id
		case op.PrioDep > 0:
			dep = uint32(op.PrioDep)
		}
		var frames [][]byte
		for i, p := range parts {
			last := i == len(parts)-1
			eh := last && !op.NoEndHdrs
			if i == 0 {
				frames = append(frames, w.fw.Headers(id, p, op.EndStream, eh, op.Pad, op.Prio, dep, 16))
			} else {
				frames = append(frames, w.fw.Continuation(id, p, eh))
			}
		}
		if len(parts) > 1 {
			w.Probes["header-block-split"]++
		}
		if op.Pad >= 0 {
			w.Probes["headers-padded"]++
		}
		w.sim.Logf("peer>> lane%d stream %d %s block=%x parts=%d", l.idx, id, op.Kind, blk, len(parts))
		if op.JunkFlags != 0 {
			frames[0][4] |= op.JunkFlags
			w.Probes["undefined-flags"]++
		}
		w.c2s.Inject(frames[0])
		l.queue = frames[1:]
		l.keepBlock = op.NoEndHdrs
		if len(l.queue) > 0 || op.NoEndHdrs {
			w.blockOwner = l
		}
	case "data":
		var body []byte
		if l.lane.Req != nil {
			end := l.bodyOff + op.Len
			if end > len(l.lane.Req.Body) {
				end = len(l.lane.Req.Body)
			}
			body = l.lane.Req.Body[l.bodyOff:end]
			l.bodyOff = end
		} else {
			body = bytes.Repeat([]byte{'d'}, op.Len)
		}
		fb := w.fw.Data(id, op.EndStream, body, op.Pad)
		n := int64(len(fb) - 9)
		w.sendConnWin -= n
		w.fcSent += n
		l.sendWin -= n
		if op.Pad >= 0 {
			w.Probes["data-padded"]++
		}
		if len(body) == 0 {
			w.Probes["data-empty"]++
		}
		if op.JunkFlags != 0 {
			fb[4] |= op.JunkFlags
			w.Probes["undefined-flags"]++
		}
		w.c2s.Inject(fb)
	case "rst":
		if id == l.id {
			l.peerRST = true
		}
		w.c2s.Inject(w.fw.RST(id, op.Code))
	case "wupd":
		if op.OnConn {
			id = 0
			w.connGranted += int64(op.Incr)
		} else {
			w.streamWupd[id] += int64(op.Incr)
		}
		w.c2s.Inject(w.fw.WindowUpdate(id, op.Incr))
	case "priority":
		dep := uint32(0)
		switch {
		case op.PrioDep < 0:
			dep = id
		case op.PrioDep > 0:
			dep = uint32(op.PrioDep)
		}
		w.c2s.Inject(w.fw.Priority(id, dep, false, 10))
	case "settings":
		var st []xh2.Setting
		for _, kv := range op.Settings {
			st = append(st, xh2.Setting{ID: xh2.SettingID(kv[0]), Val: kv[1]})
		}
		w.SettingsSentByPeer++
		w.noteSettingsSent(op.Settings)
		for _, kv := range op.Settings {
			if kv[0] == 1 {
				// a larger table may be used from now on; a smaller one binds the server from its ACK on
				if int64(kv[1]) >= w.allowedTable {
					w.allowedTable = int64(kv[1])
					w.dec.SetAllowedMaxDynamicTableSize(kv[1])
				}
			}
		}
		w.PeerSettingsLog = append(w.PeerSettingsLog, PeerSettingsEvent{Settings: op.Settings, SentAtFrame: len(w.Frames), Step: w.sim.Steps})
		w.c2s.Inject(w.fw.Settings(st...))
	case "ping":
		var d [8]byte
		copy(d[:], fmt.Sprintf("p%07d", w.opsSent))
		w.PingsSent++
		w.c2s.Inject(w.fw.Ping(false, d))
	case "goaway":
		w.c2s.Inject(w.fw.GoAway(0, op.Code, nil))
	case "raw":
		var pl []byte
		if op.RawHex != "" {
			pl, _ = hex.DecodeString(op.RawHex)
		}
		if op.RawLen > 0 {
			pl = append(pl, make([]byte, op.RawLen)...)
		}
		w.c2s.Inject(w.fw.Raw(op.RawType, op.RawFlags, id, pl))
	case "wait-resp", "wait-handler", "wait-resp-start", "wait-open":
		// pure synchronisation
	}
}

// PeerSettingsEvent records a SETTINGS frame the peer sent after the first one.
type PeerSettingsEvent struct {
	Settings    [][2]uint32
	SentAtFrame int // number of server frames the peer had received when it sent it
	Step        int
}

func (w *SrvWorld) EnvActions() []Action {
	w.drainEvents()
	var acts []Action
	// deliveries towards the server
	if n := len(w.c2s.Inflight); n > 0 && !w.c2s.cutDone {
		acts = append(acts, Action{Name: "deliver c2s all(" + itoa(n) + ")", Run: func() { w.c2s.Deliver(n) }, Env: true, Weight: 20})
		if w.plan.Frag && n > 1 {
			acts = append(acts, Action{Name: "deliver c2s 1", Run: func() { w.c2s.Deliver(1) }, Env: true, Weight: 6})
			k := 1 + int(Mix(uint64(w.sim.Steps), uint64(n))%uint64(n-1))
			acts = append(acts, Action{Name: "deliver c2s " + itoa(k), Run: func() { w.c2s.Deliver(k) }, Env: true, Weight: 10})
		}
	}
	// deliveries towards the peer
	if n := len(w.s2c.Inflight); n > 0 && !w.stallS2C {
		acts = append(acts, Action{Name: "deliver s2c all(" + itoa(n) + ")", Run: func() { w.s2c.Deliver(n); w.peerReceive() }, Env: true, Weight: 20})
		if w.plan.DelayS2C && n > 9 {
			// one frame only
			l := 9 + (int(w.s2c.Inflight[0])<<16 | int(w.s2c.Inflight[1])<<8 | int(w.s2c.Inflight[2]))
			if pend := w.fr.Pending(); pend == 0 && l < n {
				acts = append(acts, Action{Name: "deliver s2c frame(" + itoa(l) + ")", Run: func() { w.s2c.Deliver(l); w.peerReceive() }, Env: true, Weight: 10})
			}
		}
	} else if !w.PeerEOF && w.s2c.EOF && len(w.s2c.Inflight) == 0 && !w.stallS2C {
		acts = append(acts, Action{Name: "peer sees EOF", Run: func() { w.peerReceive() }, Env: true})
	}
	// lanes
	for _, l := range w.lanes {
		if !w.manualLanes && w.laneEnabled(l) {
			l := l
			acts = append(acts, Action{Name: "peer-send lane" + itoa(l.idx) + " op" + itoa(l.next), Run: func() { w.laneSend(l) }, Env: true, Weight: 10})
		}
	}
	// gates
	for _, g := range w.gates {
		if !g.open && !(w.plan.GateMode == "hold" && w.phase < 4) && !(w.plan.GateMode == "walk-hold" && w.phase < 1) && !(w.plan.GateMode == "after-rst" && !w.rstSeenFor(g.rid)) {
			g := g
			wt := 5
			if w.phase >= 1 {
				wt = 50
			}
			acts = append(acts, Action{Name: "open-gate " + g.name, Run: func() { g.open = true; g.ch <- struct{}{} }, Env: true, Weight: wt})
		}
	}
	// drain: the peer grants whatever the responses still need
	if w.phase >= 1 && w.plan.Peer.DrainGrants && w.blockOwner == nil && !w.peerGone {
		if a := w.drainGrantAction(); a != nil {
			acts = append(acts, *a)
		}
	}
	// faults
	if w.phase == 0 {
		for i, f := range w.plan.Faults {
			if w.faultsDone[i] || (f.AfterOps >= 0 && w.opsSent < f.AfterOps) {
				continue
			}
			i, f := i, f
			acts = append(acts, Action{Name: "fault " + f.Kind + "@" + itoa(f.At), Run: func() { w.faultsDone[i] = true; w.applyFault(f) }, Env: true, Weight: 8})
		}
	}
	return acts
}

// drainGrantAction tops the peer's receive windows up (connection, then every unfinished stream).
func (w *SrvWorld) drainGrantAction() *Action {
	const target = int64(1 << 28)
	// only what is needed: a sender that stays parked although both of its windows are open is the defect the drain
	// phase is there to expose, and a grant it did not need would wake it up
	// a response whose whole body has arrived and which lacks nothing but END_STREAM needs no window: an empty DATA
	// frame costs none
	needs := func(l *laneState) bool {
		if l.id == 0 || l.lane.Resp == nil {
			return false
		}
		ps := w.Streams[l.id]
		if ps != nil && (ps.EndStreams > 0 || len(ps.RST) > 0) {
			return false
		}
		r := l.lane.Resp
		if r.ErrAt >= 0 || r.Panic || ps == nil {
			return true
		}
		return ps.RecvBytes < int64(r.BodyLen)
	}
	anyNeeds := false
	for _, l := range w.lanes {
		anyNeeds = anyNeeds || needs(l)
	}
	if avail := w.connGranted - w.connRecv; avail <= 0 && anyNeeds {
		inc := target - avail
		return &Action{Name: fmt.Sprintf("drain-grant conn +%d", inc), Env: true, Run: func() {
			w.connGranted += inc
			w.c2s.Inject(w.fw.WindowUpdate(0, uint32(inc)))
		}}
	}
	for _, l := range w.lanes {
		if !needs(l) {
			continue
		}
		ps := w.Streams[l.id]
		var recv int64
		if ps != nil {
			recv = ps.RecvBytes
		}
		// least window the server can believe in: acked initial (or any unacked lower one) + updates - received
		lo := w.ackedInitWin
		for _, v := range w.peerSettingsVals[min(w.ackedSettings, len(w.peerSettingsVals)):] {
			if v.hasInit && v.init < lo {
				lo = v.init
			}
		}
		avail := lo + w.streamWupd[l.id] - recv
		hi := w.permissiveInit() + w.streamWupd[l.id] - recv
		if avail <= 0 && hi < target {
			inc := target - hi
			id := l.id
			return &Action{Name: fmt.Sprintf("drain-grant stream %d +%d", id, inc), Env: true, Run: func() {
				w.streamWupd[id] += inc
				w.c2s.Inject(w.fw.WindowUpdate(id, uint32(inc)))
			}}
		}
	}
	return nil
}

func (w *SrvWorld) applyFault(f Fault) {
	w.Probes["fault-"+f.Kind]++
	switch f.Kind {
	case "eof":
		w.peerGone = true
		w.c2s.SetEOF()
	case "cut-eof":
		w.c2s.CutAt = w.c2s.Deliv + f.At
		if len(w.c2s.Inflight) == 0 {
			w.c2s.Deliver(0)
		}
	case "cut-rst":
		w.c2s.CutAt = w.c2s.Deliv + f.At
		w.c2s.CutRST = true
		w.s2c.readerClosed = true
		poke(w.s2c.wsig)
		if len(w.c2s.Inflight) == 0 {
			w.c2s.Deliver(0)
		}
	case "werr":
		w.s2c.WErrAt = w.s2c.Written + f.At
	case "stall-s2c":
		w.stallS2C = true
	case "unstall-s2c":
		w.stallS2C = false
	case "deadline-err":
		w.conn.DeadlineErr = errInjected
	case "flip":
		// flip one bit of the client→server stream at an offset from the current position
		w.c2s.FlipAt = append(w.c2s.FlipAt, [2]int64{w.c2s.Injected + f.At, 1 << (uint(f.At) % 8)})
	case "close-peer":
		w.peerGone = true
		w.c2s.SetEOF()
		w.s2c.readerClosed = true
		poke(w.s2c.wsig)
	}
}

// PeerClose makes the peer go away for good: EOF towards the server after what is in flight, and the
// server's writes fail from now on (a closed socket answers with RST), including one that is blocked.
func (w *SrvWorld) PeerClose() {
	w.peerGone = true
	w.c2s.SetEOF()
	w.s2c.readerClosed = true
	poke(w.s2c.wsig)
}

func (w *SrvWorld) Check() *Violation {
	w.drainEvents()
	select {
	case err := <-w.served:
		w.Returned = true
		w.RetErr = err
		w.RetStep = w.sim.Steps
	default:
	}
	if w.Harness != "" {
		w.sim.Stuck = w.Harness
		return &Violation{Property: "HARNESS", Rule: "harness", Sig: "harness", Detail: w.Harness}
	}
	if w.online != nil {
		return w.online(w)
	}
	return nil
}

// LanesDone reports whether every lane has sent everything.
func (w *SrvWorld) LanesDone() bool {
	for _, l := range w.lanes {
		if !l.sentAll && len(l.lane.Ops) > 0 {
			return false
		}
	}
	return true
}

// overCommitted reports whether lane l opened its stream while the peer, by what it had seen by then, already had
// MaxConcurrentStreams streams open: the server is then entitled to refuse it (RFC 7540 5.1.2), whichever lane the
// generator meant to be the one over the limit.
func (w *SrvWorld) overCommitted(l *laneState) bool {
	limit := w.plan.Srv.MaxConcurrentStreams
	if limit <= 0 || l.id == 0 {
		return false
	}
	n := 0
	for _, o := range w.lanes {
		if o == l || o.id == 0 || o.id >= l.id || !o.lane.OpensStream {
			continue
		}
		if ps := w.Streams[o.id]; ps != nil && (ps.EndStreams > 0 || len(ps.RST) > 0) && ps.DoneAt <= l.openedAt {
			continue
		}
		n++
	}
	return n >= limit
}

// rstSeenFor: gate mode "after-rst" keeps the handler of an offending lane in its gate until the peer has received the
// server's RST_STREAM for that lane's stream (so that the offending frame certainly met a stream whose handler was
// still running); handlers of other lanes are released at any time.
func (w *SrvWorld) rstSeenFor(rid int) bool {
	if rid < 0 || rid >= len(w.lanes) || w.lanes[rid].lane.Offender == "" {
		return true
	}
	ps := w.Streams[w.lanes[rid].id]
	return ps != nil && len(ps.RST) > 0
}
