package harness

import (
	"bytes"
	"encoding/binary"
	"fmt"
	"strconv"
	"strings"

	xh2 "golang.org/x/net/http2"
)

// Frame types (RFC 7540 §6).
const (
	FData         = 0
	FHeaders      = 1
	FPriority     = 2
	FRST          = 3
	FSettings     = 4
	FPushPromise  = 5
	FPing         = 6
	FGoAway       = 7
	FWindowUpdate = 8
	FContinuation = 9
)

var ftNames = []string{"DATA", "HEADERS", "PRIORITY", "RST_STREAM", "SETTINGS", "PUSH_PROMISE", "PING", "GOAWAY", "WINDOW_UPDATE", "CONTINUATION"}

func ftName(t uint8) string {
	if int(t) < len(ftNames) {
		return ftNames[t]
	}
	return fmt.Sprintf("TYPE_%d", t)
}

// Frame is one frame the system under test wrote, as read by the x/net framer.
type Frame struct {
	Type   uint8
	Flags  uint8
	Stream uint32
	Len    int   // payload length on the wire (what counts against flow control for DATA)
	At     int   // scheduler step at which the peer received it
	Seq    int   // index in the peer's receive order
	Off    int64 // offset of the frame\'s first octet in the stream it was read from

	Data       []byte // DATA payload without padding
	Block      []byte // header block fragment
	EndStream  bool
	EndHeaders bool
	HasPrio    bool
	Settings   []xh2.Setting
	Ack        bool
	Ping       [8]byte
	LastStream uint32
	Code       uint32
	Debug      []byte
	Incr       uint32
	Err        string // x/net refused to parse it
}

func (f *Frame) String() string {
	var sb strings.Builder
	sb.WriteString(ftName(f.Type))
	sb.WriteString(" s=")
	sb.WriteString(strconv.Itoa(int(f.Stream)))
	sb.WriteString(" len=")
	sb.WriteString(strconv.Itoa(f.Len))
	b2s := func(b bool) string {
		if b {
			return "true"
		}
		return "false"
	}
	switch f.Type {
	case FData:
		sb.WriteString(" data=" + strconv.Itoa(len(f.Data)) + " es=" + b2s(f.EndStream))
	case FHeaders, FContinuation:
		sb.WriteString(" blk=" + strconv.Itoa(len(f.Block)) + " es=" + b2s(f.EndStream) + " eh=" + b2s(f.EndHeaders))
	case FRST:
		sb.WriteString(" code=" + xh2.ErrCode(f.Code).String())
	case FGoAway:
		sb.WriteString(" last=" + strconv.Itoa(int(f.LastStream)) + " code=" + xh2.ErrCode(f.Code).String() + " debug=" + strconv.Quote(string(f.Debug)))
	case FWindowUpdate:
		sb.WriteString(" incr=" + strconv.Itoa(int(f.Incr)))
	case FSettings:
		sb.WriteString(" ack=" + b2s(f.Ack) + " [")
		for i, s := range f.Settings {
			if i > 0 {
				sb.WriteString(" ")
			}
			sb.WriteString("[" + s.ID.String() + " = " + strconv.Itoa(int(s.Val)) + "]")
		}
		sb.WriteString("]")
	case FPing:
		sb.WriteString(" ack=" + b2s(f.Ack))
	}
	if f.Err != "" {
		sb.WriteString(" ERR=" + f.Err)
	}
	return sb.String()
}

// FrameReader turns the byte stream the system wrote into frames, using the x/net framer per frame.
type FrameReader struct {
	buf   []byte
	Total int
	seq   int
}

func (r *FrameReader) Feed(b []byte) { r.buf = append(r.buf, b...); r.Total += len(b) }

// Pending is the number of buffered bytes that do not form a complete frame yet.
func (r *FrameReader) Pending() int { return len(r.buf) }

// Next returns the next complete frame, or nil.
func (r *FrameReader) Next() *Frame {
	if len(r.buf) < 9 {
		return nil
	}
	l := int(r.buf[0])<<16 | int(r.buf[1])<<8 | int(r.buf[2])
	if len(r.buf) < 9+l {
		return nil
	}
	raw := r.buf[:9+l]
	off := int64(r.Total - len(r.buf))
	r.buf = r.buf[9+l:]
	f := &Frame{Type: raw[3], Flags: raw[4], Stream: binary.BigEndian.Uint32(raw[5:9]) & 0x7fffffff, Len: l, Seq: r.seq, Off: off}
	r.seq++
	fr := xh2.NewFramer(nil, bytes.NewReader(raw))
	fr.AllowIllegalReads = true
	fr.SetMaxReadFrameSize(1<<24 - 1)
	xf, err := fr.ReadFrame()
	if err != nil {
		f.Err = err.Error()
		return f
	}
	switch x := xf.(type) {
	case *xh2.DataFrame:
		f.Data = append([]byte(nil), x.Data()...)
		f.EndStream = x.StreamEnded()
	case *xh2.HeadersFrame:
		f.Block = append([]byte(nil), x.HeaderBlockFragment()...)
		f.EndStream = x.StreamEnded()
		f.EndHeaders = x.HeadersEnded()
		f.HasPrio = x.HasPriority()
	case *xh2.ContinuationFrame:
		f.Block = append([]byte(nil), x.HeaderBlockFragment()...)
		f.EndHeaders = x.HeadersEnded()
	case *xh2.RSTStreamFrame:
		f.Code = uint32(x.ErrCode)
	case *xh2.SettingsFrame:
		f.Ack = x.IsAck()
		_ = x.ForeachSetting(func(s xh2.Setting) error { f.Settings = append(f.Settings, s); return nil })
	case *xh2.PingFrame:
		f.Ack = x.IsAck()
		f.Ping = x.Data
	case *xh2.GoAwayFrame:
		f.LastStream = x.LastStreamID
		f.Code = uint32(x.ErrCode)
		f.Debug = append([]byte(nil), x.DebugData()...)
	case *xh2.WindowUpdateFrame:
		f.Incr = x.Increment
	case *xh2.PushPromiseFrame:
		f.Block = append([]byte(nil), x.HeaderBlockFragment()...)
		f.EndHeaders = x.HeadersEnded()
	}
	return f
}

// FrameWriter produces wire bytes for frames the peer sends, through the x/net framer.
type FrameWriter struct {
	buf bytes.Buffer
	fr  *xh2.Framer
}

func NewFrameWriter() *FrameWriter {
	w := &FrameWriter{}
	w.fr = xh2.NewFramer(&w.buf, nil)
	w.fr.AllowIllegalWrites = true
	return w
}

func (w *FrameWriter) take(err error) []byte {
	if err != nil {
		panic("harness: x/net framer refused to write: " + err.Error())
	}
	b := append([]byte(nil), w.buf.Bytes()...)
	w.buf.Reset()
	return b
}

func (w *FrameWriter) Settings(s ...xh2.Setting) []byte { return w.take(w.fr.WriteSettings(s...)) }
func (w *FrameWriter) SettingsAck() []byte              { return w.take(w.fr.WriteSettingsAck()) }
func (w *FrameWriter) Ping(ack bool, d [8]byte) []byte  { return w.take(w.fr.WritePing(ack, d)) }
func (w *FrameWriter) WindowUpdate(id, n uint32) []byte { return w.take(w.fr.WriteWindowUpdate(id, n)) }
func (w *FrameWriter) RST(id uint32, code uint32) []byte {
	return w.take(w.fr.WriteRSTStream(id, xh2.ErrCode(code)))
}
func (w *FrameWriter) GoAway(last uint32, code uint32, dbg []byte) []byte {
	return w.take(w.fr.WriteGoAway(last, xh2.ErrCode(code), dbg))
}
func (w *FrameWriter) Raw(t uint8, flags uint8, id uint32, payload []byte) []byte {
	return w.take(w.fr.WriteRawFrame(xh2.FrameType(t), xh2.Flags(flags), id, payload))
}
func (w *FrameWriter) Priority(id, dep uint32, excl bool, weight uint8) []byte {
	return w.take(w.fr.WritePriority(id, xh2.PriorityParam{StreamDep: dep, Exclusive: excl, Weight: weight}))
}

// Data writes a DATA frame; pad < 0 means not padded.
func (w *FrameWriter) Data(id uint32, end bool, data []byte, pad int) []byte {
	if pad < 0 {
		return w.take(w.fr.WriteData(id, end, data))
	}
	return w.take(w.fr.WriteDataPadded(id, end, data, make([]byte, pad)))
}

// Headers writes a HEADERS frame; pad < 0 means not padded; prio adds a priority section.
func (w *FrameWriter) Headers(id uint32, frag []byte, endStream, endHeaders bool, pad int, prio bool, dep uint32, weight uint8) []byte {
	p := xh2.HeadersFrameParam{StreamID: id, BlockFragment: frag, EndStream: endStream, EndHeaders: endHeaders}
	if pad >= 0 {
		// x/net pads only when PadLength != 0; a zero-length pad field is written by hand
		if pad == 0 {
			flags := uint8(0x8)
			if endStream {
				flags |= 0x1
			}
			if endHeaders {
				flags |= 0x4
			}
			var pl []byte
			pl = append(pl, 0)
			if prio {
				flags |= 0x20
				pl = append(pl, byte(dep>>24), byte(dep>>16), byte(dep>>8), byte(dep), weight)
			}
			pl = append(pl, frag...)
			return w.Raw(FHeaders, flags, id, pl)
		}
		p.PadLength = uint8(pad)
	}
	if prio {
		p.Priority = xh2.PriorityParam{StreamDep: dep, Weight: weight}
		if dep == 0 && weight == 0 {
			p.Priority.Weight = 1
		}
	}
	return w.take(w.fr.WriteHeaders(p))
}

func (w *FrameWriter) Continuation(id uint32, frag []byte, endHeaders bool) []byte {
	return w.take(w.fr.WriteContinuation(id, endHeaders, frag))
}
