package harness

import (
	"encoding/json"
	"testing"
	"time"
)

// Shrinkable plans offer one-step simplifications of themselves.
type Shrinkable interface {
	Shrinks() []any
}

// runReplay executes plan+tape in a fresh bubble and returns the signature it fails with ("" if it passes).
func runReplay(t *testing.T, fam *Family, plan any, tape []uint32) (sig string, res *RunResult) {
	// deep-copy the plan through JSON so that a run can never alias another run's plan
	b, _ := json.Marshal(plan)
	p2, err := fam.Decode(b)
	if err != nil {
		return "", nil
	}
	InBubble(t, func() {
		res = fam.Run(p2, NewReplayTape(tape), 1)
	})
	if res == nil {
		return "", nil
	}
	if res.Viol != nil {
		return res.Viol.Sig, res
	}
	if res.Stuck != "" {
		return "STUCK", res
	}
	return "", res
}

// hasSig reports whether the run failed with the wanted signature, as primary or as an extra violation.
func hasSig(res *RunResult, sig, want string) bool {
	if sig == want {
		return true
	}
	if res != nil {
		for _, v := range res.Extra {
			if v.Sig == want {
				return true
			}
		}
	}
	return false
}

// Shrink minimises a failing replay while the same signature persists.
func Shrink(t *testing.T, rp *Replay, budget time.Duration, maxAttempts int) (*Replay, int) {
	fam := familyByName(rp.Property, rp.Family)
	plan, err := fam.Decode(rp.Plan)
	if err != nil {
		return rp, 0
	}
	start := time.Now()
	attempts := 0
	want := rp.Sig
	tape := append([]uint32(nil), rp.Tape...)
	try := func(p any, tp []uint32) bool {
		if attempts >= maxAttempts || time.Since(start) > budget {
			return false
		}
		attempts++
		sig, res := runReplay(t, fam, p, tp)
		return hasSig(res, sig, want)
	}
	if !try(plan, tape) {
		return rp, attempts // does not reproduce in-process; leave it alone
	}
	shrinkTape := func() {
		if try(plan, nil) {
			tape = nil
			return
		}
		// shortest failing prefix (binary search; monotone in practice, verified by the final try)
		lo, hi := 0, len(tape)
		for lo < hi {
			mid := (lo + hi) / 2
			if try(plan, tape[:mid]) {
				hi = mid
			} else {
				lo = mid + 1
			}
		}
		if hi < len(tape) && try(plan, tape[:hi]) {
			tape = tape[:hi]
		}
		// zero out chunks
		for chunk := len(tape) / 2; chunk >= 1; chunk /= 2 {
			for off := 0; off+chunk <= len(tape); off += chunk {
				allZero := true
				for _, v := range tape[off : off+chunk] {
					if v != 0 {
						allZero = false
					}
				}
				if allZero {
					continue
				}
				cand := append([]uint32(nil), tape...)
				for i := off; i < off+chunk; i++ {
					cand[i] = 0
				}
				if try(plan, cand) {
					tape = cand
				}
			}
			if attempts >= maxAttempts || time.Since(start) > budget {
				break
			}
		}
		// drop trailing zeros
		for len(tape) > 0 && tape[len(tape)-1] == 0 {
			tape = tape[:len(tape)-1]
		}
	}
	shrinkTape()
	// plan simplification, greedy to a fixpoint
	for progress := true; progress; {
		progress = false
		sh, ok := plan.(Shrinkable)
		if !ok {
			break
		}
		for _, cand := range sh.Shrinks() {
			if try(cand, tape) {
				plan = cand
				progress = true
				break
			}
			if len(tape) > 0 && try(cand, nil) {
				plan = cand
				tape = nil
				progress = true
				break
			}
		}
		if attempts >= maxAttempts || time.Since(start) > budget {
			break
		}
	}
	if len(tape) > 0 {
		shrinkTape()
	}
	pb, _ := json.Marshal(plan)
	out := *rp
	out.Plan = pb
	out.Tape = tape
	_, res := runReplay(t, fam, plan, tape)
	if res != nil {
		out.Trace = res.Trace
		out.TraceHash = res.TraceHash
		if res.Viol != nil && res.Viol.Sig == want {
			out.Detail = res.Viol.Detail
		}
		for _, v := range res.Extra {
			if v.Sig == want {
				out.Detail = v.Detail
			}
		}
	}
	return &out, attempts
}

func cloneSrvPlan(p *SrvPlan) *SrvPlan {
	b, _ := json.Marshal(p)
	q := &SrvPlan{}
	json.Unmarshal(b, q)
	return q
}

// Shrinks lists one-step simplifications of a server-side plan.
func (p *SrvPlan) Shrinks() []any {
	var out []any
	add := func(f func(q *SrvPlan) bool) {
		q := cloneSrvPlan(p)
		if f(q) {
			out = append(out, q)
		}
	}
	// disable whole lanes (keep the slot so request ids stay put), last first
	for i := len(p.Lanes) - 1; i >= 0; i-- {
		i := i
		if len(p.Lanes[i].Ops) == 0 {
			continue
		}
		add(func(q *SrvPlan) bool {
			for j := range q.Lanes {
				if q.Lanes[j].After == i {
					q.Lanes[j].After = q.Lanes[i].After
					q.Lanes[j].AfterResp = q.Lanes[i].AfterResp && q.Lanes[i].After >= 0
				}
			}
			q.Lanes[i].Ops = nil
			q.Lanes[i].Req = nil
			q.Lanes[i].Resp = nil
			q.Lanes[i].Offender = ""
			return true
		})
	}
	for i := range p.Faults {
		i := i
		add(func(q *SrvPlan) bool { q.Faults = append(q.Faults[:i:i], q.Faults[i+1:]...); return true })
	}
	// global knobs towards the simplest configuration
	add(func(q *SrvPlan) bool { c := q.Frag; q.Frag = false; return c })
	add(func(q *SrvPlan) bool { c := q.DelayS2C; q.DelayS2C = false; return c })
	add(func(q *SrvPlan) bool { c := q.GateMode != "open"; q.GateMode = "open"; return c })
	add(func(q *SrvPlan) bool { c := q.Peer.LinkCap != 0; q.Peer.LinkCap = 0; return c })
	add(func(q *SrvPlan) bool { c := q.PoolPol != 0; q.PoolPol = 0; return c })
	add(func(q *SrvPlan) bool {
		c := len(q.Mask) != 4
		q.Mask = []string{"atomic", "prelock", "net", "yield"}
		return c
	})
	add(func(q *SrvPlan) bool { c := q.Peer.HeaderTableSize != -1; q.Peer.HeaderTableSize = -1; return c })
	add(func(q *SrvPlan) bool { c := q.Peer.MaxFrameSize != -1; q.Peer.MaxFrameSize = -1; return c })
	// lanes that are not request models (walks, floods, control lanes): drop single ops, last first
	for i := range p.Lanes {
		if p.Lanes[i].Req != nil || len(p.Lanes[i].Ops) < 2 || len(p.Lanes[i].Ops) > 60 {
			continue
		}
		for k := len(p.Lanes[i].Ops) - 1; k >= 0; k-- {
			i, k := i, k
			add(func(q *SrvPlan) bool {
				q.Lanes[i].Ops = append(q.Lanes[i].Ops[:k:k], q.Lanes[i].Ops[k+1:]...)
				return true
			})
		}
	}
	// per-lane simplifications
	for i := range p.Lanes {
		i := i
		l := &p.Lanes[i]
		for k := range l.Ops {
			k := k
			op := &l.Ops[k]
			if len(op.Splits) > 0 {
				add(func(q *SrvPlan) bool { q.Lanes[i].Ops[k].Splits = nil; return true })
				if len(op.Splits) > 1 {
					add(func(q *SrvPlan) bool { q.Lanes[i].Ops[k].Splits = q.Lanes[i].Ops[k].Splits[:1]; return true })
				}
			}
			if op.Pad >= 0 {
				add(func(q *SrvPlan) bool { q.Lanes[i].Ops[k].Pad = -1; return true })
			}
			if op.Prio {
				add(func(q *SrvPlan) bool { q.Lanes[i].Ops[k].Prio = false; return true })
			}
			nz := false
			for _, r := range op.Reps {
				if r != 0 {
					nz = true
				}
			}
			if nz {
				add(func(q *SrvPlan) bool { q.Lanes[i].Ops[k].Reps = nil; return true })
			}
			// drop one regular field (never x-rid, never a pseudo-header) from the op and from the request model
			if (op.Kind == "headers" || op.Kind == "trailers") && l.Req != nil {
				for fi := len(op.Fields) - 1; fi >= 0; fi-- {
					f := op.Fields[fi]
					if f.Name == "x-rid" || (len(f.Name) > 0 && f.Name[0] == ':') || f.Name == "content-length" {
						continue
					}
					fi := fi
					add(func(q *SrvPlan) bool {
						o := &q.Lanes[i].Ops[k]
						f := o.Fields[fi]
						o.Fields = append(o.Fields[:fi:fi], o.Fields[fi+1:]...)
						if fi < len(o.Reps) {
							o.Reps = append(o.Reps[:fi:fi], o.Reps[fi+1:]...)
						}
						rq := q.Lanes[i].Req
						lst := &rq.Fields
						if o.Kind == "trailers" {
							lst = &rq.Trailers
						}
						for x := range *lst {
							if (*lst)[x] == f {
								*lst = append((*lst)[:x:x], (*lst)[x+1:]...)
								break
							}
						}
						if o.Kind == "trailers" && len(o.Fields) == 0 {
							return false
						}
						return true
					})
				}
			}
		}
		if l.Resp != nil {
			if l.Resp.BodyLen > 1 {
				add(func(q *SrvPlan) bool { q.Lanes[i].Resp.BodyLen = 1; return true })
				add(func(q *SrvPlan) bool { q.Lanes[i].Resp.BodyLen /= 2; return true })
			}
			if len(l.Resp.Fields) > 1 {
				add(func(q *SrvPlan) bool {
					q.Lanes[i].Resp.Fields = q.Lanes[i].Resp.Fields[len(q.Lanes[i].Resp.Fields)-1:]
					return true
				})
			}
			if l.Resp.Mode != "buffered" {
				add(func(q *SrvPlan) bool { q.Lanes[i].Resp.Mode = "buffered"; return true })
			}
			if len(l.Resp.ReadSizes) > 0 {
				add(func(q *SrvPlan) bool { q.Lanes[i].Resp.ReadSizes = nil; return true })
			}
		}
	}
	return out
}
