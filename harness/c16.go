package harness

import (
	"bufio"
	"encoding/hex"
	"errors"
	"fmt"
	"io"
	"os"
	"runtime"
	"sync/atomic"

	"github.com/dgrr/http2"

	"simrt"
)

// C16Plan: a byte stream of frames read through ReadFrameFromWithSize on a faulty reader.
type C16Plan struct {
	Family    string `json:"family"`
	StreamHex string `json:"stream_hex"`
	Max       uint32 `json:"max"`        // frame size limit handed to the parser
	ReadSizes []int  `json:"read_sizes"` // sizes of successive Read results (cycled)
	CutAt     int    `json:"cut_at"`     // -1: none; the reader ends after this many bytes ...
	CutErr    bool   `json:"cut_err"`    // ... with an error instead of EOF
	AllCuts   bool   `json:"all_cuts"`   // thorough: try every cut offset of the stream
	PoolPol   int    `json:"pool_policy"`
	Kind      string `json:"kind"` // valid | mutated | garbage
	// AfterHex: a short well-formed stream (frames without payload among them) read through a sound reader after the
	// faulty read, out of the same pools: what a failed read left behind must not show in the next connection's frames
	AfterHex string `json:"after_hex,omitempty"`

	// decoded counts, per run, how often each distinct header block fragment went through the HPACK decoder: decoding
	// is a function of the fragment alone, and an all-offsets run meets the same fragment once per cut behind it
	decoded map[string]int
}

type faultyReader struct {
	data  []byte
	off   int
	sizes []int
	k     int
	cut   int
	err   error
	reads int
}

func (r *faultyReader) Read(p []byte) (int, error) {
	r.reads++
	end := len(r.data)
	if r.cut >= 0 && r.cut < end {
		end = r.cut
	}
	if r.off >= end {
		if r.cut >= 0 && r.err != nil {
			return 0, r.err
		}
		return 0, io.EOF
	}
	n := len(p)
	if len(r.sizes) > 0 {
		if s := r.sizes[r.k%len(r.sizes)]; s > 0 && s < n {
			n = s
		}
		r.k++
	}
	if n > end-r.off {
		n = end - r.off
	}
	copy(p, r.data[r.off:r.off+n])
	r.off += n
	return n, nil
}

func genFrameStream(r *RNG) ([]byte, string) {
	fw := NewFrameWriter()
	var out []byte
	n := 1 + r.Intn(5)
	for i := 0; i < n; i++ {
		id := uint32(Pick(r, 0, 1, 3, 1<<31-1))
		switch r.Intn(12) {
		case 11:
			// a padded DATA or HEADERS frame whose Pad Length octet sits on the boundary: equal to the payload length (no
			// room for the octet itself: impossible), one less (all padding, no content: legal), one more, 255
			L := Pick(r, 1, 2, 5, 9, 100)
			pl := make([]byte, L)
			pl[0] = byte(Pick(r, L, L, L-1, L+1, 255))
			typ, flags := uint8(Pick(r, int(FData), int(FHeaders))), uint8(0x08|Pick(r, 0, 1, 4, 5))
			if typ == FHeaders && r.Intn(3) == 0 {
				// ... or a HEADERS frame with the PRIORITY flag around the five octets its fixed fields take, with and
				// without padding in front of them (Pad Length 0: the fields must fit; more: they must fit before it)
				L = Pick(r, 0, 1, 4, 5, 6, 7)
				pl = make([]byte, L)
				flags = uint8(0x20 | Pick(r, 0, 4, 8, 12))
				if flags&0x08 != 0 && L > 0 {
					pl[0] = byte(Pick(r, 0, 0, 1, L-1))
				}
			}
			out = append(out, fw.Raw(typ, flags, id|1, pl)...)
		case 0:
			out = append(out, fw.Data(id|1, r.Intn(2) == 0, make([]byte, Pick(r, 0, 1, 100, 16384)), Pick(r, -1, -1, 0, 1, 255))...)
		case 1:
			blk := genHeaderBlock(r)
			out = append(out, fw.Headers(id|1, blk, r.Intn(2) == 0, r.Intn(2) == 0, Pick(r, -1, 0, 7, 255), r.Intn(2) == 0, uint32(r.Intn(100)), uint8(r.Intn(256)))...)
		case 2:
			out = append(out, fw.Priority(id|1, uint32(r.Intn(100)), r.Intn(2) == 0, uint8(r.Intn(256)))...)
		case 3:
			out = append(out, fw.RST(id|1, uint32(r.Intn(16)))...)
		case 4:
			out = append(out, fw.Raw(FSettings, 0, 0, make([]byte, 6*r.Intn(7)))...)
		case 5:
			out = append(out, fw.Raw(FPushPromise, uint8(Pick(r, 4, 0, 12)), id|1, append([]byte{0, 0, 0, 2}, make([]byte, r.Intn(20))...))...)
		case 6:
			var d [8]byte
			out = append(out, fw.Ping(r.Intn(2) == 0, d)...)
		case 7:
			out = append(out, fw.GoAway(uint32(r.Intn(100)), uint32(r.Intn(16)), make([]byte, Pick(r, 0, 10, 300)))...)
		case 8:
			out = append(out, fw.WindowUpdate(id, uint32(1+r.Intn(1<<30)))...)
		case 9:
			cb := make([]byte, Pick(r, 0, 5, 1000))
			if r.Intn(2) == 0 {
				cb = genHeaderBlock(r)
			}
			out = append(out, fw.Continuation(id|1, cb, r.Intn(2) == 0)...)
		case 10: // unknown type
			out = append(out, fw.Raw(uint8(Pick(r, 10, 11, 64, 127, 128, 200, 255)), uint8(r.Intn(256)), id, make([]byte, Pick(r, 0, 1, 100, 5000)))...)
		}
	}
	kind := "valid"
	switch r.Intn(4) {
	case 0: // structure-aware mutation: change one header field of one frame
		kind = "mutated"
		pos := 0
		k := r.Intn(n)
		for i := 0; i < k && pos+9 <= len(out); i++ {
			pos += 9 + (int(out[pos])<<16 | int(out[pos+1])<<8 | int(out[pos+2]))
		}
		if pos+9 <= len(out) {
			switch r.Intn(4) {
			case 0:
				out[pos+3] = byte(r.Intn(256)) // type
			case 1:
				out[pos+4] = byte(r.Intn(256)) // flags
			case 2:
				out[pos+2] = byte(r.Intn(256)) // length low byte
			case 3:
				out[pos+5+r.Intn(4)] = byte(r.Intn(256)) // stream id
			}
		}
	case 1: // raw garbage
		kind = "garbage"
		g := make([]byte, 9+r.Intn(60))
		for i := range g {
			g[i] = byte(r.Uint64())
		}
		g[0] = 0 // keep the declared length below 64 KiB so that garbage does not just starve on EOF
		out = append(out, g...)
	}
	return out, kind
}

// genHeaderBlock: header block fragments from well-formed to hostile: boundary integers (RFC 7541 5.1: eleven octets
// still fit 64 bits), indexes out of range, size updates, strings longer than what follows, Huffman garbage.
func genHeaderBlock(r *RNG) []byte {
	huge := "7f80808080808080808001" // 7-bit prefix, 2^63 + 127
	pool := []string{
		"828784410161",                        // :method GET, :scheme https, :path /, :authority "a"
		"82878441016100016101" + "62",         // + literal a: b
		"00" + huge,                           // literal, new name of 2^63 octets
		"000161" + huge,                       // literal a: value of 2^63 octets
		"40" + "ff80808080808080808001",       // literal with indexing, Huffman name of 2^63 octets
		"0f2f" + huge,                         // indexed name, value of 2^63 octets
		"ffffffffffffffffffff7f",              // index of 2^70
		"ff808080808080808080" + "8080808001", // integer that does not fit 64 bits
		"3fe11f" + "8287",                     // size update to 4096, then fields
		"3fffffff7f" + "82",                   // size update far above any limit
		"bf",                                  // index 63: nothing there
		"0085" + "ffffffffff" + "0161",        // Huffman name that is all padding / EOS
		"000a6162",                            // name longer than the block
		"",                                    // empty block
	}
	b, _ := hex.DecodeString(pool[r.Intn(len(pool))])
	if r.Intn(3) == 0 {
		// a literal field whose Huffman-coded value is mostly one-bits: EOS (thirty ones) and over-long padding at every
		// bit offset, behind a short lead of arbitrary bits (RFC 7541 5.2: both are decoding errors, nothing more)
		n := 2 + r.Intn(7)
		v := make([]byte, n)
		for i := range v {
			v[i] = 0xff
		}
		lead := r.Intn(3)
		for i := 0; i < lead && i < n; i++ {
			v[i] = byte(r.Uint64())
		}
		if lead < n {
			v[lead] = byte(0xff >> uint(r.Intn(8))) // the run of ones starts at any bit offset
		}
		if r.Intn(2) == 0 {
			v[n-1] &= byte(0xff << uint(r.Intn(8))) // and may stop short of the end of the string
		}
		b = append([]byte{0x00, 0x01, 'x', 0x80 | byte(n)}, v...)
		if r.Intn(2) == 0 {
			b = append([]byte{0x00, 0x80 | byte(n)}, append(v, 0x01, 'y')...) // the same octets as a Huffman-coded name
		}
	}
	if r.Intn(4) == 0 {
		g := make([]byte, 1+r.Intn(40))
		for i := range g {
			g[i] = byte(r.Uint64())
		}
		b = append(b, g...)
	}
	return b
}

// c16DecodeBlock runs a header block fragment through the library's HPACK decoder, one field at a time: every step
// consumes input or fails, nothing panics, and the decoder goes back to its pool exactly once.
func c16DecodeBlock(b []byte) (detail string) {
	defer func() {
		if p := recover(); p != nil {
			detail = fmt.Sprintf("HPACK decoding panicked: %v", p)
		}
	}()
	hp := http2.AcquireHPACK()
	defer http2.ReleaseHPACK(hp)
	hf := http2.AcquireHeaderField()
	defer http2.ReleaseHeaderField(hf)
	in := len(b)
	fields, outBytes := 0, 0
	for len(b) > 0 {
		nb, err := hp.Next(hf, b)
		if err != nil {
			return ""
		}
		if len(nb) >= len(b) {
			return fmt.Sprintf("HPACK.Next returned without an error and without consuming input (%d bytes left before and after)", len(b))
		}
		b = nb
		fields++
		outBytes += len(hf.KeyBytes()) + len(hf.ValueBytes())
		if fields > in {
			return fmt.Sprintf("%d fields decoded from %d bytes of input", fields, in)
		}
	}
	// output bounded by input: a literal costs its own length, an indexed field at most one table entry (the table
	// starts empty here, so only static entries and what the block itself inserted: both bounded by 64 bytes + input)
	if outBytes > (in+64)*(in+1) {
		return fmt.Sprintf("%d bytes of header fields decoded from %d bytes of input", outBytes, in)
	}
	return ""
}

func GenC16(r *RNG) *C16Plan {
	b, kind := genFrameStream(r)
	p := &C16Plan{Family: "c16", StreamHex: hex.EncodeToString(b), Kind: kind, Max: uint32(Pick(r, 16384, 16384, 100, 0, 1<<24-1)), CutAt: -1, PoolPol: r.Intn(3)}
	switch r.Intn(4) {
	case 0:
		p.ReadSizes = []int{1}
	case 1:
		p.ReadSizes = []int{1 + r.Intn(9), 1 + r.Intn(20), 1 + r.Intn(5000)}
	}
	if r.Intn(3) != 0 {
		p.CutAt = r.Intn(len(b) + 1)
		p.CutErr = r.Intn(2) == 0
	}
	p.AllCuts = os.Getenv("VERIF_TIER") == "thorough" && len(b) < 4000
	if r.Intn(2) == 0 {
		menu := []string{
			"000000040100000000",                 // SETTINGS ACK
			"000000000100000001",                 // DATA, empty, END_STREAM, stream 1
			"000000000000000003",                 // DATA, empty, stream 3
			"000000010500000005",                 // HEADERS, empty block, END_STREAM|END_HEADERS, stream 5
			"0000080600000000000102030405060708", // PING
			"00000408000000000000000064",         // WINDOW_UPDATE(0, 100)
			"000000040000000000",                 // SETTINGS, empty
			"0000050000000000076162636465",       // DATA "abcde", stream 7
		}
		for k := 2 + r.Intn(4); k > 0; k-- {
			p.AfterHex += menu[r.Intn(len(menu))]
		}
	}
	return p
}

var errInjectedRead = errors.New("injected read error")

// refFrames parses the stream with the independent parser up to the first incomplete frame.
func refFrames(b []byte) ([]*Frame, int) {
	var fr FrameReader
	fr.Feed(b)
	var out []*Frame
	for {
		f := fr.Next()
		if f == nil {
			break
		}
		out = append(out, f)
	}
	return out, len(b) - fr.Pending()
}

func c16Once(p *C16Plan, data []byte, cut int, res *RunResult) *Violation {
	mk := func(rule, sig, d string) *Violation {
		return &Violation{Property: "C16", Rule: rule, Sig: sig, Detail: fmt.Sprintf("%s [stream kind %s, max=%d, cut=%d, read sizes %v]", d, p.Kind, p.Max, cut, p.ReadSizes)}
	}
	fr := &faultyReader{data: data, sizes: p.ReadSizes, cut: cut}
	if p.CutErr {
		fr.err = errInjectedRead
	}
	br := bufio.NewReaderSize(fr, 4096)
	limit := len(data)
	if cut >= 0 && cut < limit {
		limit = cut
	}
	ref, _ := refFrames(data[:limit])
	pos := 0 // bytes of the stream consumed by frames read so far
	for i := 0; ; i++ {
		var ms0, ms1 runtime.MemStats
		runtime.ReadMemStats(&ms0)
		var f *http2.FrameHeader
		var err error
		var pan any
		func() {
			defer func() { pan = recover() }()
			f, err = http2.ReadFrameFromWithSize(br, p.Max)
		}()
		runtime.ReadMemStats(&ms1)
		if pan != nil {
			return mk("panic", "panic", fmt.Sprintf("ReadFrameFromWithSize panicked on frame %d at offset %d: %v", i, pos, pan))
		}
		consumed := fr.off - br.Buffered()
		// what does the independent parser say about the bytes at pos?
		var want *Frame
		if i < len(ref) {
			want = ref[i]
		}
		alloc := int64(ms1.TotalAlloc - ms0.TotalAlloc)
		declared := -1
		if pos+9 <= limit {
			declared = int(data[pos])<<16 | int(data[pos+1])<<8 | int(data[pos+2])
		}
		bound := int64(p.Max)
		if p.Max == 0 || int64(declared) < bound {
			bound = int64(declared)
		}
		if declared >= 0 && alloc > 2*bound+65536 {
			// TotalAlloc is process-wide (runtime, test framework): confirm by reading the same frame again, three
			// times, from a fresh reader positioned at its first byte; only a repeatable excess counts
			least := alloc
			for rep := 0; rep < 3; rep++ {
				fr2 := &faultyReader{data: data, off: pos, sizes: p.ReadSizes, cut: cut}
				br2 := bufio.NewReaderSize(fr2, 4096)
				var a0, a1 runtime.MemStats
				runtime.GC()
				runtime.ReadMemStats(&a0)
				func() {
					defer func() { _ = recover() }()
					if f2, e2 := http2.ReadFrameFromWithSize(br2, p.Max); e2 == nil {
						http2.ReleaseFrameHeader(f2)
					}
				}()
				runtime.ReadMemStats(&a1)
				if d := int64(a1.TotalAlloc - a0.TotalAlloc); d < least {
					least = d
				}
			}
			if least > 2*bound+65536 {
				return mk("allocation", "allocation", fmt.Sprintf("reading frame %d (declared length %d) allocated %d bytes (least of 4 measurements)", i, declared, least))
			}
		}
		if err != nil {
			if want != nil && want.Err == "" && !errors.Is(err, http2.ErrUnknownFrameType) && (p.Max == 0 || want.Len <= int(p.Max)) && want.Type <= 9 {
				// a complete, well-formed frame within the limit was refused
				return mk("valid-frame-rejected", "valid-frame-rejected/"+ftName(want.Type), fmt.Sprintf("frame %d (%s) is complete and well-formed for x/net but ReadFrameFrom returned %v", i, want, err))
			}
			if errors.Is(err, http2.ErrUnknownFrameType) {
				if want == nil {
					// an unknown frame whose payload is cut short is reported as unknown all the same; the next read
					// meets the end of the stream. Not a violation of anything C16 says (there is no next frame).
					res.Probes["unknown-type-truncated"]++
					break
				}
				pos += 9 + want.Len
				if consumed != pos {
					return mk("position-after-unknown", "position-after-unknown", fmt.Sprintf("after skipping unknown frame %d (type %d, len %d) the reader is at offset %d, the next frame starts at %d", i, want.Type, want.Len, consumed, pos))
				}
				continue
			}
			break // any other error ends the connection: nothing more is read
		}
		// success
		if want == nil {
			return mk("frame-from-truncated-bytes", "frame-from-truncated-bytes", fmt.Sprintf("a frame (type %d, len %d) was returned although only %d bytes of it were available", f.Type(), f.Len(), limit-pos))
		}
		if p.Max != 0 && f.Len() > int(p.Max) {
			return mk("oversized-accepted", "oversized-accepted", fmt.Sprintf("frame %d has a payload of %d bytes, the limit is %d", i, f.Len(), p.Max))
		}
		if int(f.Type()) != int(want.Type) || f.Len() != want.Len || f.Stream() != want.Stream || uint8(f.Flags()) != want.Flags {
			return mk("header-mismatch", "header-mismatch", fmt.Sprintf("frame %d: parser says type=%d len=%d stream=%d flags=%#x, x/net says %s flags=%#x", i, f.Type(), f.Len(), f.Stream(), uint8(f.Flags()), want, want.Flags))
		}
		if d := compareBody(f, want); d != "" {
			return mk("body-mismatch", "body-mismatch/"+ftName(want.Type), fmt.Sprintf("frame %d (%s): %s", i, want, d))
		}
		if (want.Type == FHeaders || want.Type == FContinuation) && want.Err == "" {
			if fh, ok := f.Body().(http2.FrameWithHeaders); ok && p.decoded[string(fh.Headers())] < 8 {
				p.decoded[string(fh.Headers())]++
				res.Probes["header-block-decoded"]++
				if d := c16DecodeBlock(fh.Headers()); d != "" {
					return mk("hpack", "hpack/"+normMsg([]byte(d)), fmt.Sprintf("frame %d (%s), header block fragment %x: %s", i, want, fh.Headers(), d))
				}
			}
		}
		if why := structurallyImpossible(want, data[pos+9:pos+9+want.Len]); why != "" {
			return mk("impossible-structure-accepted", "impossible-structure-accepted/"+ftName(want.Type), fmt.Sprintf("frame %d (%s, flags %#x) was accepted although its fixed-size or padding structure is impossible: %s (x/net: %q)", i, want, want.Flags, why, want.Err))
		}
		pos += 9 + want.Len
		if consumed != pos {
			return mk("position", "position", fmt.Sprintf("after frame %d the reader is at offset %d, the next frame starts at %d", i, consumed, pos))
		}
		http2.ReleaseFrameHeader(f)
		res.Steps++
	}
	return nil
}

// structurallyImpossible says why a frame's fixed-size or padding structure cannot be (RFC 9113 6.1-6.9), or "".
// It is computed from the frame's own octets, not from x/net's verdict: x/net answers "connection error:
// PROTOCOL_ERROR" both for a Pad Length that does not fit and for a DATA or HEADERS frame on stream 0, which it
// refuses before it looks at the padding - and a stream identifier is semantics (the connection layer's business,
// C01/C02), not structure.
func structurallyImpossible(f *Frame, payload []byte) string {
	fixed := func(n int) string {
		if f.Len != n {
			return fmt.Sprintf("payload of %d octets, the frame type has exactly %d", f.Len, n)
		}
		return ""
	}
	switch f.Type {
	case FPriority:
		return fixed(5)
	case FRST:
		return fixed(4)
	case FWindowUpdate:
		return fixed(4)
	case FPing:
		return fixed(8)
	case FSettings:
		if f.Len%6 != 0 {
			return fmt.Sprintf("payload of %d octets is not a multiple of 6", f.Len)
		}
		if f.Flags&0x1 != 0 && f.Len != 0 {
			return fmt.Sprintf("acknowledgement with a payload of %d octets", f.Len)
		}
	case FGoAway:
		if f.Len < 8 {
			return fmt.Sprintf("payload of %d octets, the fixed part has 8", f.Len)
		}
	case FData, FHeaders, FPushPromise:
		rest, pad := f.Len, 0
		if f.Flags&0x8 != 0 { // PADDED
			if rest < 1 {
				return "PADDED without room for the Pad Length octet"
			}
			pad = int(payload[0])
			rest--
		}
		need := 0 // fixed-size fields between the Pad Length octet and the fragment
		if f.Type == FHeaders && f.Flags&0x20 != 0 {
			need = 5 // PRIORITY: stream dependency + weight
		}
		if f.Type == FPushPromise {
			need = 4 // promised stream id
		}
		if pad > rest-need && f.Flags&0x8 != 0 {
			return fmt.Sprintf("Pad Length %d, but only %d octets follow the Pad Length octet and %d of them are fixed fields", pad, rest, need)
		}
		if rest < need {
			return fmt.Sprintf("%d octets where the fixed fields alone take %d", rest, need)
		}
	}
	return ""
}

func compareBody(f *http2.FrameHeader, want *Frame) string {
	if want.Err != "" {
		return ""
	}
	switch b := f.Body().(type) {
	case *http2.Data:
		if string(b.Data()) != string(want.Data) {
			return fmt.Sprintf("data of %d bytes, x/net reads %d bytes (padding not stripped?)", len(b.Data()), len(want.Data))
		}
		if b.EndStream() != want.EndStream {
			return "END_STREAM differs"
		}
	case *http2.Headers:
		if string(b.Headers()) != string(want.Block) {
			return fmt.Sprintf("header block of %d bytes, x/net reads %d bytes", len(b.Headers()), len(want.Block))
		}
		if b.EndStream() != want.EndStream || b.EndHeaders() != want.EndHeaders {
			return "END_STREAM/END_HEADERS differ"
		}
	case *http2.Continuation:
		if string(b.Headers()) != string(want.Block) {
			return "continuation fragment differs"
		}
	case *http2.RstStream:
		if uint32(b.Code()) != want.Code {
			return fmt.Sprintf("code %d, x/net reads %d", b.Code(), want.Code)
		}
	case *http2.WindowUpdate:
		if uint32(b.Increment()) != want.Incr {
			return fmt.Sprintf("increment %d, x/net reads %d (reserved bit not ignored?)", b.Increment(), want.Incr)
		}
	case *http2.GoAway:
		if b.Stream()&0x7fffffff != want.LastStream || uint32(b.Code()) != want.Code {
			return fmt.Sprintf("last-stream-id %d code %d, x/net reads %d / %d", b.Stream(), b.Code(), want.LastStream, want.Code)
		}
	case *http2.Ping:
		if string(b.Data()) != string(want.Ping[:]) {
			return "ping payload differs"
		}
	}
	return ""
}

// RunC16 runs one plan: the stream through the faulty reader (at every cut offset in the thorough tier).
func RunC16(p *C16Plan) *RunResult {
	res := &RunResult{Property: "C16", Family: p.Family, Probes: map[string]int{}}
	run := simrt.Begin()
	run.RegisterSelf("c16")
	run.Pools.Policy = p.PoolPol
	data, _ := hex.DecodeString(p.StreamHex)
	p.decoded = map[string]int{}
	cuts := []int{p.CutAt}
	if p.AllCuts {
		cuts = cuts[:0]
		for c := 0; c <= len(data); c++ {
			cuts = append(cuts, c)
		}
	}
	inside := 0
	for k, c := range cuts {
		atomic.AddInt64(&heartbeat, 1) // one run reads the stream once per cut: progress is per cut, not per run
		if p.PoolPol == simrt.PoolQuarantine && k > 0 && k%64 == 0 {
			// Under quarantine nothing that was released is handed out again: the free lists grow with every cut, and
			// re-hashing all of them after every cut makes a run over thousands of offsets quadratic (minutes; the
			// driver then gives the worker up: exit 2). Nothing is live between two cuts, so the pools start afresh
			// every 64 cuts; what was released within those 64 cuts stays under watch for writes after release.
			run.End()
			run = simrt.Begin()
			run.RegisterSelf("c16")
			run.Pools.Policy = p.PoolPol
			res.Probes["quarantine-pools-renewed"]++
		}
		if v := c16Once(p, data, c, res); v != nil {
			res.Viol = v
			break
		}
		if p.AfterHex != "" {
			after, _ := hex.DecodeString(p.AfterHex)
			p2 := *p
			p2.Kind, p2.ReadSizes, p2.CutErr = "aftermath-of-"+p.Kind, nil, false
			if p2.Max != 0 && p2.Max < 16384 {
				p2.Max = 16384
			}
			if v := c16Once(&p2, after, -1, res); v != nil {
				v.Sig = "after-failed-read/" + v.Sig
				v.Detail = fmt.Sprintf("reading a well-formed stream (%s) after the stream cut at %d: %s", p.AfterHex, c, v.Detail)
				res.Viol = v
				break
			}
			res.Probes["aftermath"]++
		}
		run.Pools.CheckFree()
		if len(run.Pools.Viol) > 0 {
			pv := run.Pools.Viol[0]
			res.Viol = &Violation{Property: "C16", Rule: "pool-" + pv.Kind, Sig: "pool-" + pv.Kind + "/" + shortType(pv.Pool),
				Detail: fmt.Sprintf("%s of a %s at %s (first release at %s) while reading a stream cut at %d [stream kind %s, max=%d, read sizes %v]", pv.Kind, pv.Pool, pv.Site, pv.PrevSite, c, p.Kind, p.Max, p.ReadSizes)}
			break
		}
		if c >= 0 && c < len(data) {
			_, whole := refFrames(data[:c])
			if whole != c {
				inside++
			}
		}
		res.Probes["cuts"]++
	}
	res.Probes["cut-inside-frame"] = inside
	res.Nontrivial = inside > 0 || p.Kind != "valid"
	h := NewRNG(1)
	for _, b := range data {
		h.s = h.s*1099511628211 ^ uint64(b)
	}
	res.ILHash = h.Uint64() ^ uint64(p.CutAt+1)*0x9E3779B97F4A7C15 ^ uint64(len(p.ReadSizes))
	res.TraceHash = res.ILHash
	res.Summary = fmt.Sprintf("%d bytes, kind %s, %d cut(s)", len(data), p.Kind, len(cuts))
	run.End()
	return res
}
