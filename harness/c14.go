package harness

import (
	"fmt"
)

// GenC14: uploads within the server's advertised windows, several times the connection window in total.
// The peer is a sender that blocks exactly when its ledger says so (laneEnabled checks the windows).
func GenC14(r *RNG) *SrvPlan {
	p := &SrvPlan{Family: "c14"}
	mcs := Pick(r, 4, 16)
	p.Srv = SrvCfg{MaxConcurrentStreams: mcs, PingInterval: -1, MaxRequestBodySize: 8 << 20}
	p.Peer = PeerCfg{InitialWindow: 1 << 20, MaxFrameSize: -1, HeaderTableSize: -1, AutoWindow: true, ConnWindowBoost: 1 << 24, LinkCap: Pick(r, 0, 1<<20)}
	n := 2 + r.Intn(min(mcs, 5)-1) // never more streams than the server allows
	// total volume: 1.2 – 2.5 times the connection receive window the server advertises (65535 + 4 MiB)
	total := (65535 + 4<<20) * (12 + r.Intn(14)) / 10
	per := total / n
	for i := 0; i < n; i++ {
		req := &Req{Method: "POST", Scheme: "https", Path: fmt.Sprintf("/up/%d", i), Authority: "example.com", Fields: []HF{{"x-rid", fmt.Sprint(i)}}, Body: genBody(i, per)}
		fields := []HF{{":method", "POST"}, {":scheme", "https"}, {":path", req.Path}, {":authority", req.Authority}, {"x-rid", fmt.Sprint(i)}}
		l := Lane{Name: fmt.Sprintf("up%d", i), Req: req, OpensStream: true, After: -1,
			Resp: &Resp{Status: 200, Mode: "buffered", BodyLen: 3, ErrAt: -1, Fields: []HF{{"x-rid", fmt.Sprint(i)}}}}
		l.Ops = append(l.Ops, Op{Kind: "headers", Fields: fields, Pad: -1, TableSize: -1})
		rest := per
		style := r.Intn(4)
		for rest > 0 {
			k := 16384
			pad := -1
			switch style {
			case 1:
				k = 1 + r.Intn(16384)
			case 2:
				pad = Pick(r, -1, 0, 1, 100, 255)
				k = 16384 - 256
			case 3:
				// empty DATA frames in between (legal; what a proxy forwarding chunk boundaries one to one sends):
				// nothing was consumed, so nothing is to be handed back, and an increment of 0 is an error
				if r.Intn(4) == 0 {
					l.Ops = append(l.Ops, Op{Kind: "data", Len: 0, Pad: Pick(r, -1, -1, 0), TableSize: -1})
				}
			}
			if k > rest {
				k = rest
			}
			rest -= k
			l.Ops = append(l.Ops, Op{Kind: "data", Len: k, Pad: pad, EndStream: rest == 0, TableSize: -1})
		}
		p.Lanes = append(p.Lanes, l)
	}
	p.GateMode = Pick(r, "sched", "open")
	p.Mask = []string{"atomic", "prelock", "net", "yield"}
	p.PoolPol = r.Intn(2)
	p.Strategy = genStrategy(r)
	p.Strategy.Stay = Pick(r, 0.7, 0.9)
	p.SelSeed = r.Uint64()
	p.DelayS2C = r.Intn(2) == 0
	p.MaxSteps = 600000
	return p
}

// c14Online: no WINDOW_UPDATE with increment 0, no send window above 2^31-1 in the sender's ledger.
func c14Online(w *SrvWorld) *Violation {
	for _, f := range w.winUpdates[w.wuChecked:] {
		if f.Incr == 0 {
			return &Violation{Property: "C14", Rule: "window-update-zero", Sig: "window-update-zero", Detail: fmt.Sprintf("WINDOW_UPDATE on stream %d with increment 0", f.Stream)}
		}
	}
	w.wuChecked = len(w.winUpdates)
	if w.sendConnWin > 1<<31-1 {
		return &Violation{Property: "C14", Rule: "window-overflow", Sig: "window-overflow/conn", Detail: fmt.Sprintf("the connection send window reached %d", w.sendConnWin)}
	}
	for _, l := range w.lanes {
		if l.sendWin > 1<<31-1 {
			return &Violation{Property: "C14", Rule: "window-overflow", Sig: "window-overflow/stream", Detail: fmt.Sprintf("the send window of stream %d reached %d", l.id, l.sendWin)}
		}
	}
	return nil
}

// c14Final: at drain quiescence the sender is not starved: every lane has sent everything (and was answered).
func c14Final(w *SrvWorld) *Violation {
	for i, l := range w.lanes {
		if l.lane.Req == nil {
			continue
		}
		if len(w.GoAways) > 0 {
			g := w.GoAways[0]
			return &Violation{Property: "C14", Rule: "goaway", Sig: fmt.Sprintf("goaway/code=%d", g.Code), Detail: fmt.Sprintf("GOAWAY(code=%d, %.80q) during conforming uploads", g.Code, g.Debug)}
		}
		if !l.sentAll {
			which := "stream"
			if w.sendConnWin <= 0 {
				which = "connection"
			}
			return &Violation{Property: "C14", Rule: "sender-starved", Sig: "sender-starved/" + which,
				Detail: fmt.Sprintf("upload %d (stream %d) is stuck at byte %d of %d at quiescence: connection send window %d, stream send window %d; the receiver has not returned the credit", i, l.id, l.bodyOff, len(l.lane.Req.Body), w.sendConnWin, l.sendWin)}
		}
		if rule, d := checkResponseSeen(i, l.lane.Resp, w.Streams[l.id]); rule != "" {
			return &Violation{Property: "C14", Rule: "upload-not-answered", Sig: "upload-not-answered/" + rule, Detail: fmt.Sprintf("upload %d: %s", i, d)}
		}
		if s := w.Snaps[i]; s == nil || len(s.Body) != len(l.lane.Req.Body) {
			n := -1
			if s != nil {
				n = len(s.Body)
			}
			return &Violation{Property: "C14", Rule: "upload-truncated", Sig: "upload-truncated", Detail: fmt.Sprintf("upload %d: handler saw %d of %d bytes", i, n, len(l.lane.Req.Body))}
		}
	}
	return nil
}

// c14Nontrivial: total DATA sent exceeded the receiver's connection window, i.e. progress depended on returned credit.
func c14Nontrivial(w *SrvWorld) bool {
	sent := 0
	for _, l := range w.lanes {
		sent += l.bodyOff
	}
	return sent > 65535+4<<20
}
