package harness

import (
	"fmt"
)

// GenC14: uploads within the server's advertised windows, several times the connection window in total.
// The peer is a sender that blocks exactly when its ledger says so (laneEnabled checks the windows).
func GenC14(r *RNG) *SrvPlan {
	p := &SrvPlan{Family: "c14"}
	mcs := Pick(r, 4, 16)
	p.Srv = SrvCfg{MaxConcurrentStreams: mcs, PingInterval: -1, MaxRequestBodySize: 8 << 20}
	p.Peer = PeerCfg{InitialWindow: 1 << 20, MaxFrameSize: -1, HeaderTableSize: -1, AutoWindow: true, ConnWindowBoost: 1 << 24, LinkCap: Pick(r, 0, 1<<20)}
	n := 2 + r.Intn(min(mcs, 5)-1) // never more streams than the server allows
	// total volume: 1.2 – 2.5 times the connection receive window the server advertises (65535 + 4 MiB)
	total := (65535 + 4<<20) * (12 + r.Intn(14)) / 10
	per := total / n
	for i := 0; i < n; i++ {
		req := &Req{Method: "POST", Scheme: "https", Path: fmt.Sprintf("/up/%d", i), Authority: "example.com", Fields: []HF{{"x-rid", fmt.Sprint(i)}}, Body: genBody(i, per)}
		fields := []HF{{":method", "POST"}, {":scheme", "https"}, {":path", req.Path}, {":authority", req.Authority}, {"x-rid", fmt.Sprint(i)}}
		l := Lane{Name: fmt.Sprintf("up%d", i), Req: req, OpensStream: true, After: -1,
			Resp: &Resp{Status: 200, Mode: "buffered", BodyLen: 3, ErrAt: -1, Fields: []HF{{"x-rid", fmt.Sprint(i)}}}}
		l.Ops = append(l.Ops, Op{Kind: "headers", Fields: fields, Pad: -1, TableSize: -1})
		rest := per
		style := r.Intn(4)
		for rest > 0 {
			k := 16384
			pad := -1
			switch style {
			case 1:
				k = 1 + r.Intn(16384)
			case 2:
				pad = Pick(r, -1, 0, 1, 100, 255)
				k = 16384 - 256
			case 3:
				// empty DATA frames in between (legal; what a proxy forwarding chunk boundaries one to one sends):
				// nothing was consumed, so nothing is to be handed back, and an increment of 0 is an error
				if r.Intn(4) == 0 {
					l.Ops = append(l.Ops, Op{Kind: "data", Len: 0, Pad: Pick(r, -1, -1, 0), TableSize: -1})
				}
			}
			if k > rest {
				k = rest
			}
			rest -= k
			l.Ops = append(l.Ops, Op{Kind: "data", Len: k, Pad: pad, EndStream: rest == 0, TableSize: -1})
		}
		p.Lanes = append(p.Lanes, l)
	}
	if r.Intn(4) == 0 {
		// a graceful end in mid-upload: once every upload has begun the peer opens a stream on an id it had left out
		// below them. The server says GOAWAY and serves what it has promised to the end (RFC 7540 6.8) - and the uploads
		// left standing still need their credit
		p.Lanes[0].SkipID = true
		ol := Lane{Name: "offence-headers-lower-id", Offender: "headers-lower-id", After: -1}
		for i := 0; i < n; i++ {
			ol.Ops = append(ol.Ops, Op{Kind: "wait-open", Len: i, Pad: -1, TableSize: -1})
		}
		ol.Ops = append(ol.Ops, Op{Kind: "headers", Fields: okHeaders, StreamRef: -2, EndStream: true, Pad: -1, TableSize: -1})
		p.Lanes = append(p.Lanes, ol)
		p.Trail = "graceful"
	}
	p.GateMode = Pick(r, "sched", "open")
	p.Mask = []string{"atomic", "prelock", "net", "yield"}
	p.PoolPol = r.Intn(2)
	p.Strategy = genStrategy(r)
	p.Strategy.Stay = Pick(r, 0.7, 0.9)
	p.SelSeed = r.Uint64()
	p.DelayS2C = r.Intn(2) == 0
	p.MaxSteps = 600000
	return p
}

// GenC14Padded: uploads made of frames that are almost all padding (3 octets of data, 255 of padding). Padding is
// charged to both windows like data (RFC 7540 6.1, 6.9.1); a receiver that hands back the data octets only loses 256
// octets per frame, and a sender that keeps its books is starved once the connection window's worth has gone that way.
func GenC14Padded(r *RNG) *SrvPlan {
	p := &SrvPlan{Family: "c14-server-padded"}
	p.Srv = SrvCfg{MaxConcurrentStreams: 4, PingInterval: -1, MaxRequestBodySize: 8 << 20}
	p.Peer = PeerCfg{InitialWindow: 1 << 20, MaxFrameSize: -1, HeaderTableSize: -1, AutoWindow: true, ConnWindowBoost: 1 << 24}
	n := 1 + r.Intn(2)
	// on the wire: 1.15 – 1.4 times the connection receive window the server advertises (65535 + 4 MiB)
	wire := (65535 + 4<<20) * (115 + r.Intn(26)) / 100
	frames := wire / 259 / n
	dataLen := Pick(r, 1, 3)
	pad := 255
	for i := 0; i < n; i++ {
		req := &Req{Method: "POST", Scheme: "https", Path: fmt.Sprintf("/pad/%d", i), Authority: "example.com", Fields: []HF{{"x-rid", fmt.Sprint(i)}}, Body: genBody(i, frames*dataLen)}
		fields := []HF{{":method", "POST"}, {":scheme", "https"}, {":path", req.Path}, {":authority", req.Authority}, {"x-rid", fmt.Sprint(i)}}
		l := Lane{Name: fmt.Sprintf("pad%d", i), Req: req, OpensStream: true, After: -1,
			Resp: &Resp{Status: 200, Mode: "buffered", BodyLen: 3, ErrAt: -1, Fields: []HF{{"x-rid", fmt.Sprint(i)}}}}
		l.Ops = append(l.Ops, Op{Kind: "headers", Fields: fields, Pad: -1, TableSize: -1})
		for k := 0; k < frames; k++ {
			l.Ops = append(l.Ops, Op{Kind: "data", Len: dataLen, Pad: pad, EndStream: k == frames-1, TableSize: -1})
		}
		p.Lanes = append(p.Lanes, l)
	}
	p.GateMode = "open"
	p.Mask = []string{"net"}
	p.PoolPol = r.Intn(2)
	p.Strategy = genStrategy(r)
	p.Strategy.Stay = 0.95
	p.SelSeed = r.Uint64()
	p.MaxSteps = 1500000
	return p
}

// GenC14Refused: many rounds of DATA the server refuses (after the peer's own END_STREAM while the handler is still
// running; past MaxRequestBodySize; on a stream the server has just reset), a frame's worth each, then an ordinary
// upload. Refused DATA has been paid for out of the connection window like any other (RFC 7540 6.9): a receiver that
// does not hand it back loses 16 KiB per round, and after the connection window's worth the upload cannot be sent.
func GenC14Refused(r *RNG) *SrvPlan {
	p := &SrvPlan{Family: "c14-server-refused"}
	mcs := 16
	p.Srv = SrvCfg{MaxConcurrentStreams: mcs, PingInterval: -1, MaxRequestBodySize: 2 << 20}
	p.Peer = PeerCfg{InitialWindow: 1 << 20, MaxFrameSize: -1, HeaderTableSize: -1, AutoWindow: true, ConnWindowBoost: 1 << 24}
	kind := Pick(r, "after-end-stream", "after-end-stream", "mixed")
	rounds := 280 + r.Intn(60)
	hdrs := func(rid int, end bool, extra ...HF) Op {
		f := []HF{{":method", "POST"}, {":scheme", "https"}, {":path", fmt.Sprintf("/x/%d", rid)}, {":authority", "example.com"}, {"x-rid", fmt.Sprint(rid)}}
		return Op{Kind: "headers", Fields: append(f, extra...), EndStream: end, Pad: -1, TableSize: -1}
	}
	for i := 0; i < rounds; i++ {
		rid := len(p.Lanes)
		l := Lane{Name: fmt.Sprintf("bad%d", rid), OpensStream: true, After: -1, Offender: "c14-refused", Resp: &Resp{Status: 200, Mode: "buffered", BodyLen: 1, ErrAt: -1}}
		if rid >= mcs {
			l.After = -3 // every earlier stream is over (its handler included): a slot is free
			if rid%mcs != 0 {
				l.After = rid - 1
			}
		}
		k := kind
		if kind == "mixed" {
			k = Pick(r, "after-end-stream", "after-reset")
		}
		switch k {
		case "after-end-stream":
			// END_STREAM on HEADERS, handler held by its gate, then a full frame of DATA
			l.Ops = []Op{hdrs(rid, true), {Kind: "data", Len: 16384, Pad: -1, TableSize: -1}}
		case "after-reset":
			// content-length that does not match: the server resets the stream at END_STREAM; one more frame is in flight
			l.Ops = []Op{hdrs(rid, false, HF{"content-length", "7"}), {Kind: "data", Len: 5, Pad: -1, EndStream: true, TableSize: -1}, {Kind: "data", Len: 16384, Pad: -1, TableSize: -1}}
		}
		p.Lanes = append(p.Lanes, l)
	}
	// the upload that must still go through
	rid := len(p.Lanes)
	req := &Req{Method: "POST", Scheme: "https", Path: fmt.Sprintf("/up/%d", rid), Authority: "example.com", Fields: []HF{{"x-rid", fmt.Sprint(rid)}}, Body: genBody(rid, 1<<20)}
	up := Lane{Name: "upload", Req: req, OpensStream: true, After: -3,
		Resp: &Resp{Status: 200, Mode: "buffered", BodyLen: 3, ErrAt: -1, Fields: []HF{{"x-rid", fmt.Sprint(rid)}}}}
	up.Ops = append(up.Ops, Op{Kind: "headers", Fields: []HF{{":method", "POST"}, {":scheme", "https"}, {":path", req.Path}, {":authority", req.Authority}, {"x-rid", fmt.Sprint(rid)}}, Pad: -1, TableSize: -1})
	for rest := 1 << 20; rest > 0; rest -= 16384 {
		up.Ops = append(up.Ops, Op{Kind: "data", Len: 16384, Pad: -1, EndStream: rest == 16384, TableSize: -1})
	}
	p.Lanes = append(p.Lanes, up)
	p.GateMode = "after-rst"
	p.Mask = []string{"net"}
	p.PoolPol = r.Intn(2)
	p.Strategy = genStrategy(r)
	p.Strategy.Stay = 0.9
	p.SelSeed = r.Uint64()
	p.MaxSteps = 1500000
	return p
}

// c14Online: no WINDOW_UPDATE with increment 0, no send window above 2^31-1 in the sender's ledger.
func c14Online(w *SrvWorld) *Violation {
	for _, f := range w.winUpdates[w.wuChecked:] {
		if f.Incr == 0 {
			return &Violation{Property: "C14", Rule: "window-update-zero", Sig: "window-update-zero", Detail: fmt.Sprintf("WINDOW_UPDATE on stream %d with increment 0", f.Stream)}
		}
	}
	w.wuChecked = len(w.winUpdates)
	if w.sendConnWin > 1<<31-1 {
		return &Violation{Property: "C14", Rule: "window-overflow", Sig: "window-overflow/conn", Detail: fmt.Sprintf("the connection send window reached %d", w.sendConnWin)}
	}
	for _, l := range w.lanes {
		if l.sendWin > 1<<31-1 {
			return &Violation{Property: "C14", Rule: "window-overflow", Sig: "window-overflow/stream", Detail: fmt.Sprintf("the send window of stream %d reached %d", l.id, l.sendWin)}
		}
	}
	return nil
}

// c14Final: at drain quiescence the sender is not starved: every lane has sent everything (and was answered).
func c14Final(w *SrvWorld) *Violation {
	for i, l := range w.lanes {
		if l.lane.Req == nil {
			continue
		}
		if len(w.GoAways) > 0 {
			g := w.GoAways[0]
			if w.plan.Trail != "graceful" || (g.Code != 1 && g.Code != 5) || g.LastStream < l.id {
				return &Violation{Property: "C14", Rule: "goaway", Sig: fmt.Sprintf("goaway/code=%d", g.Code), Detail: fmt.Sprintf("GOAWAY(last=%d, code=%d, %.80q) during conforming uploads", g.LastStream, g.Code, g.Debug)}
			}
		}
		if !l.sentAll {
			which := "stream"
			if w.sendConnWin <= 0 || w.sendConnWin < l.sendWin {
				which = "connection" // the smaller of the two windows is the one that holds the sender up
			}
			return &Violation{Property: "C14", Rule: "sender-starved", Sig: "sender-starved/" + which,
				Detail: fmt.Sprintf("upload %d (stream %d) is stuck at byte %d of %d at quiescence: connection send window %d, stream send window %d; the receiver has not returned the credit", i, l.id, l.bodyOff, len(l.lane.Req.Body), w.sendConnWin, l.sendWin)}
		}
		if rule, d := checkResponseSeen(i, l.lane.Resp, w.Streams[l.id]); rule != "" {
			return &Violation{Property: "C14", Rule: "upload-not-answered", Sig: "upload-not-answered/" + rule, Detail: fmt.Sprintf("upload %d: %s", i, d)}
		}
		if s := w.Snaps[i]; s == nil || len(s.Body) != len(l.lane.Req.Body) {
			n := -1
			if s != nil {
				n = len(s.Body)
			}
			return &Violation{Property: "C14", Rule: "upload-truncated", Sig: "upload-truncated", Detail: fmt.Sprintf("upload %d: handler saw %d of %d bytes", i, n, len(l.lane.Req.Body))}
		}
	}
	return nil
}

// c14Nontrivial: total DATA sent exceeded the receiver's connection window, i.e. progress depended on returned credit.
func c14Nontrivial(w *SrvWorld) bool {
	return w.fcSent > 65535+4<<20
}
