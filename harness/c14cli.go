package harness

import (
	"fmt"
	"time"
)

func downloadLane(r *RNG, k int, total int, style string) (CliReq, Lane) {
	q := CliReq{Method: "GET", Path: fmt.Sprintf("/dl/%d", k), Host: "example.com", Fields: []HF{{"x-rid", fmt.Sprint(k)}}, BodyMode: "none", ErrAt: -1, StartAfter: -1}
	resp := &Resp{Status: 200, BodyLen: total, ErrAt: -1, Fields: []HF{{"x-rid", fmt.Sprint(k)}}}
	l := Lane{Name: fmt.Sprintf("dl%d", k), After: -1, Resp: resp}
	l.Ops = append(l.Ops, Op{Kind: "headers", Fields: []HF{{":status", "200"}, {"x-rid", fmt.Sprint(k)}}, Reps: []Rep{2, 2}, Pad: -1, TableSize: -1})
	rest := total
	for rest > 0 {
		n := 16384
		pad := -1
		switch style {
		case "random":
			n = 1 + r.Intn(16384)
		case "small":
			n = Pick(r, 4096, 4096, 1024, 8000)
		case "4k":
			// 128 of these take the client's connection window to the half at which it hands credit back, and 128 is
			// also what its queue of outgoing control frames holds
			n = 4096
		case "padded":
			pad = Pick(r, -1, 0, 1, 100, 255)
			n = 16384 - 256
		case "pad-empty":
			// padded frames that carry no data at all, between the data frames
			l.Ops = append(l.Ops, Op{Kind: "data", Len: 0, Pad: 255, TableSize: -1})
			n = 256
		}
		if n > rest {
			n = rest
		}
		rest -= n
		l.Ops = append(l.Ops, Op{Kind: "data", Len: n, Pad: pad, EndStream: rest == 0, TableSize: -1})
	}
	return q, l
}

// GenC14Client: downloads totalling 1.2-2.5 times the client's connection receive window (1 MiB).
func GenC14Client(r *RNG) *CliPlan {
	p := &CliPlan{Family: "c14-client"}
	genCliCommon(r, p)
	p.Mask = []string{"atomic", "prelock", "net", "yield"}
	p.Srv = PeerCfg{InitialWindow: 1 << 20, MaxFrameSize: -1, HeaderTableSize: -1, AutoWindow: true, ConnWindowBoost: 1 << 24}
	n := 1 + r.Intn(4)
	total := (1 << 20) * (12 + r.Intn(14)) / 10
	style := Pick(r, "full", "random", "padded")
	p.Trail = "download/" + style
	for k := 0; k < n; k++ {
		q, l := downloadLane(r, k, total/n, style)
		p.Reqs = append(p.Reqs, q)
		p.Lanes = append(p.Lanes, l)
	}
	if r.Intn(3) == 0 {
		// graceful shutdown in mid-download: once every request has arrived the server announces that it will take no
		// more (GOAWAY with a last-stream-id that covers them all) and goes on serving; the streams left standing still
		// need their credit
		g := Lane{Name: "goaway", After: -1}
		for k := 0; k < n; k++ {
			g.Ops = append(g.Ops, Op{Kind: "wait-req", Len: k, Pad: -1, TableSize: -1})
		}
		ga := Op{Kind: "goaway", Code: 0, Incr: 1<<31 - 1, Pad: -1, TableSize: -1}
		if r.Intn(2) == 0 {
			ga.Incr = 0
			ga.LaneRef = -1 // the highest stream id seen so far
		}
		g.Ops = append(g.Ops, ga)
		p.Lanes = append(p.Lanes, g)
		p.Trail += "/goaway"
	}
	p.MaxSteps = 600000
	return p
}

// GenC14ClientPadEmpty: one stream receives more than its window's worth of padded DATA frames without data.
func GenC14ClientPadEmpty(r *RNG) *CliPlan {
	p := &CliPlan{Family: "c14-client-pad-empty"}
	genCliCommon(r, p)
	p.Mask = []string{"atomic", "prelock", "net", "yield"}
	p.Strategy.Stay = 0.95
	p.Frag = false
	p.Srv = PeerCfg{InitialWindow: 1 << 20, MaxFrameSize: -1, HeaderTableSize: -1, AutoWindow: true, ConnWindowBoost: 1 << 24}
	p.Trail = "download/pad-empty"
	// 4500 frames of 256 bytes of padding = 1.1 MiB against a stream window of 1 MiB, plus as many data bytes
	q, l := downloadLane(r, 0, 4500*256, "pad-empty")
	p.Reqs = append(p.Reqs, q)
	p.Lanes = append(p.Lanes, l)
	p.MaxSteps = 1500000
	return p
}

// GenC14ClientCancel: the caller cancels downloads whose DATA keeps arriving (the server has not seen the RST_STREAM yet);
// a later download must still get its credit.
func GenC14ClientCancel(r *RNG) *CliPlan {
	p := &CliPlan{Family: "c14-client-cancel"}
	genCliCommon(r, p)
	p.Mask = []string{"atomic", "prelock", "net", "yield"}
	p.Srv = PeerCfg{InitialWindow: 1 << 20, MaxFrameSize: -1, HeaderTableSize: -1, AutoWindow: true, ConnWindowBoost: 1 << 24}
	p.Trail = "download/cancelled"
	nc := 4 + r.Intn(2)
	for k := 0; k < nc; k++ {
		q, l := downloadLane(r, k, 300000, "full")
		q.Cancel = "any"
		p.Reqs = append(p.Reqs, q)
		p.Lanes = append(p.Lanes, l)
	}
	q, l := downloadLane(r, nc, 600000, "full")
	p.Reqs = append(p.Reqs, q)
	p.Lanes = append(p.Lanes, l)
	// the server does not see the client's RST_STREAMs for a while
	p.Faults = append(p.Faults, Fault{Kind: "stall-c2s", AfterOps: 2 * nc}, Fault{Kind: "unstall-c2s", AfterOps: 19 * nc})
	p.MaxSteps = 600000
	return p
}

// GenC14ClientStall: the server stops reading for a while in the middle of a download of small frames. Everything the
// client's read loop has to say (one WINDOW_UPDATE per frame, the connection's among them) queues up behind a write
// loop that is parked in the transport; seconds pass; the server reads again. No credit may have been lost on the way.
func GenC14ClientStall(r *RNG) *CliPlan {
	p := &CliPlan{Family: "c14-client-stall"}
	genCliCommon(r, p)
	p.PingInterval, p.DisablePingChecking = 0, true
	p.Mask = []string{"atomic", "prelock", "net", "yield"}
	p.Srv = PeerCfg{InitialWindow: 1 << 20, MaxFrameSize: -1, HeaderTableSize: -1, AutoWindow: true, ConnWindowBoost: 1 << 24, LinkCap: Pick(r, 8, 12)}
	p.Trail = "download/stalled"
	total := (1 << 20) * (15 + r.Intn(10)) / 10
	q, l := downloadLane(r, 0, total, Pick(r, "4k", "4k", "small"))
	p.Reqs = append(p.Reqs, q)
	p.Lanes = append(p.Lanes, l)
	p.Faults = append(p.Faults, Fault{Kind: "stall-c2s", AfterReqs: 1, AfterOps: Pick(r, 1, 1, 2+r.Intn(40))}, Fault{Kind: "unstall-c2s", AfterReqs: 1, AfterOps: 1 << 30})
	// the clock moves readily: at the moment everything waits for the stall to end, it is as likely to jump as the
	// stall is to end
	p.Strategy.TimeRace = Pick(r, 0.3, 0.6)
	p.Strategy.TimeSteps = []time.Duration{1500 * time.Millisecond, 3 * time.Second}
	p.Frag = false
	p.MaxSteps = 900000
	return p
}

// GenC14ClientCancelEnds: many small downloads whose callers give up once the request is out; the link towards the
// server is held up, so the server answers each of them all the same, with HEADERS and one full DATA frame that also
// ends the stream. Every one of those frames has been paid for out of the connection window. A last, large download
// must still get through.
func GenC14ClientCancelEnds(r *RNG) *CliPlan {
	p := &CliPlan{Family: "c14-client-cancel-ends"}
	genCliCommon(r, p)
	p.Mask = []string{"atomic", "prelock", "net", "yield"}
	p.Srv = PeerCfg{InitialWindow: 1 << 20, MaxFrameSize: -1, HeaderTableSize: -1, AutoWindow: true, ConnWindowBoost: 1 << 24}
	p.Trail = "download/cancelled-ends"
	nc := 40 + r.Intn(15)
	for k := 0; k < nc; k++ {
		q, l := downloadLane(r, k, 16384, "full")
		q.Cancel = "seen-stalled"
		l.AfterCancel = true
		p.Reqs = append(p.Reqs, q)
		p.Lanes = append(p.Lanes, l)
	}
	q, l := downloadLane(r, nc, 800000, "full")
	q.StartAfter = -1
	p.Reqs = append(p.Reqs, q)
	p.Lanes = append(p.Lanes, l)
	// the server does not see the client's RST_STREAMs until it has nothing left to send
	p.Faults = append(p.Faults, Fault{Kind: "stall-c2s", AfterOps: -1, AfterReqs: nc + 1}, Fault{Kind: "unstall-c2s", AfterOps: 1 << 30})
	p.MaxSteps = 600000
	return p
}

func c14ClientOnline(w *CliWorld) *Violation {
	for _, f := range w.winUpdates[w.wuChecked:] {
		if f.Incr == 0 {
			return &Violation{Property: "C14", Rule: "window-update-zero", Sig: "window-update-zero/client", Detail: fmt.Sprintf("client sent WINDOW_UPDATE on stream %d with increment 0", f.Stream)}
		}
	}
	w.wuChecked = len(w.winUpdates)
	if w.sendConnWin > 1<<31-1 {
		return &Violation{Property: "C14", Rule: "window-overflow", Sig: "window-overflow/client-conn", Detail: fmt.Sprintf("the connection window the client granted reached %d", w.sendConnWin)}
	}
	for _, l := range w.lanes {
		if l.sendWin > 1<<31-1 {
			return &Violation{Property: "C14", Rule: "window-overflow", Sig: "window-overflow/client-stream", Detail: fmt.Sprintf("the window the client granted on stream %d reached %d", l.id, l.sendWin)}
		}
	}
	return nil
}

func c14ClientFinal(w *CliWorld) *Violation {
	kind := w.plan.Trail
	if !w.HsOK {
		return &Violation{Property: "C14", Rule: "handshake", Sig: "handshake", Detail: fmt.Sprintf("handshake failed: %v", w.HsErr)}
	}
	for k := range w.plan.Reqs {
		l := w.lanes[k]
		c := w.callers[k]
		if w.plan.Reqs[k].Cancel != "" && c.cancelOffered {
			continue // no credit is owed for a stream the client has reset
		}
		if !c.started {
			continue
		}
		if !l.sentAll {
			which := "stream"
			if w.sendConnWin < 16384 {
				which = "connection"
			}
			return &Violation{Property: "C14", Rule: "sender-starved", Sig: "sender-starved/client-" + which + "/" + kind,
				Detail: fmt.Sprintf("download %d (stream %d) is stuck at frame %d of %d at quiescence: the server's view of the client's windows is connection %d, stream %d; the client has not returned the credit (%s)", k, l.id, l.next, len(l.lane.Ops), w.sendConnWin, l.sendWin, kind)}
		}
		if rule, d := checkResponseReturned(k, &w.plan.Lanes[k], c); rule != "" {
			return &Violation{Property: "C14", Rule: "download", Sig: "download/" + rule + "/" + kind, Detail: fmt.Sprintf("download %d: %s", k, d)}
		}
	}
	return nil
}

func c14ClientNontrivial(w *CliWorld) bool {
	sent := 0
	for k := range w.plan.Reqs {
		sent += w.lanes[k].bodyOff
	}
	return sent > 1<<20
}
