package harness

import (
	"fmt"
	"strconv"
	"strings"
	"time"
)

var (
	genMethods     = []string{"GET", "POST", "PUT", "DELETE", "PATCH", "OPTIONS"}
	genPaths       = []string{"/", "/index.html", "/a/b/c", "/search?q=go&x=1", "/p%20q", "/very/long/path/" + strings.Repeat("seg/", 30), "/a?", "/~user/x.y-z"}
	genAuthorities = []string{"example.com", "localhost:8443", "a", "sub.domain.example.org:443", "10.0.0.1"}
	genNames       = []string{"x-a", "x-b", "accept", "accept-encoding", "accept-language", "cache-control", "x-long-header-name-that-goes-on", "x-1", "x-a", "referer", "x-empty", "authorization", "if-none-match", "x-z9",
		// static table index 15: the largest value of a 4-bit prefix (RFC 7541 5.1)
		"accept-charset", strings.Repeat("n", 127)}
	genValues = []string{"1", "", "v", "gzip, deflate", "text/html,application/xhtml+xml;q=0.9", "en-US", strings.Repeat("long-value-", 40), "a b c", "W/\"etag\"", "no-cache", "UPPER and lower", "https://example.com/x?y=z",
		// string lengths around the largest value of a 7-bit prefix
		strings.Repeat("q", 126), strings.Repeat("q", 127), strings.Repeat("q", 128), strings.Repeat("q", 255)}
	respStatuses = []int{200, 201, 202, 400, 404, 418, 500, 503}
	respNames    = []string{"x-resp-a", "x-resp-b", "x-r1", "x-request-id", "x-resp-long-name-for-a-header", "x-cache", "accept-charset", strings.Repeat("m", 127)}
	respValues   = []string{"ok", "", "some value", strings.Repeat("r", 300), "42", "a=b; c=d", strings.Repeat("s", 127), strings.Repeat("s", 126), strings.Repeat("s", 128)}
)

func genReps(r *RNG, n int, variety bool) []Rep {
	out := make([]Rep, n)
	if !variety {
		return out
	}
	for i := range out {
		switch r.Intn(4) {
		case 0:
			out[i] = 0
		default:
			out[i] = Rep(r.Intn(32))
		}
	}
	return out
}

// junkFlags sprinkles flag bits that mean nothing for the type of frame over a lane's HEADERS and DATA frames: a
// receiver must ignore them (RFC 7540 4.1).
func junkFlags(r *RNG, ops []Op) {
	for i := range ops {
		if r.Intn(12) != 0 {
			continue
		}
		switch ops[i].Kind {
		case "headers", "trailers":
			ops[i].JunkFlags = Pick(r, uint8(0x02), 0x10, 0x40, 0x80, 0xd2)
		case "data":
			ops[i].JunkFlags = Pick(r, uint8(0x02), 0x04, 0x10, 0x20, 0x40, 0x80, 0xf6)
		}
	}
}

func genSplits(r *RNG) []int {
	switch r.Intn(5) {
	case 0, 1:
		return nil
	case 2:
		return []int{1 + r.Intn(999)}
	case 3:
		return []int{1 + r.Intn(999), 1 + r.Intn(999)}
	}
	n := 3 + r.Intn(5)
	out := make([]int, n)
	for i := range out {
		out[i] = 1 + r.Intn(999)
	}
	return out
}

func genPad(r *RNG) int {
	switch r.Intn(4) {
	case 0:
		return r.Intn(3) // 0,1,2
	case 1:
		return 1 + r.Intn(255)
	}
	return -1
}

// genBody returns a deterministic body of n bytes for request rid.
func genBody(rid, n int) []byte {
	b := make([]byte, n)
	tag := "[req " + strconv.Itoa(rid) + "]"
	for i := range b {
		b[i] = tag[i%len(tag)]
	}
	return b
}

// GenRequest builds one well-formed request lane.
type ReqOpts struct {
	MaxBody     int
	Variety     bool // vary HPACK representations
	Splits      bool
	Padding     bool
	Trailers    bool
	Underscore  bool // allow '_' in names
	RespModes   []string
	RespMaxBody int
}

func GenRequestLane(r *RNG, rid int, o ReqOpts) Lane {
	req := &Req{Method: Pick(r, genMethods...), Scheme: Pick(r, "https", "https", "http"), Path: Pick(r, genPaths...), Authority: Pick(r, genAuthorities...)}
	req.Fields = append(req.Fields, HF{"x-rid", fmt.Sprint(rid)})
	nf := r.Intn(7)
	for i := 0; i < nf; i++ {
		name := Pick(r, genNames...)
		if o.Underscore && r.Intn(12) == 0 {
			name = "x_under_" + fmt.Sprint(r.Intn(3))
		}
		req.Fields = append(req.Fields, HF{name, Pick(r, genValues...)})
	}
	if r.Intn(4) == 0 {
		req.Fields = append(req.Fields, HF{"user-agent", Pick(r, "sim/1.0", "Mozilla/5.0 (X11; Linux x86_64)")})
	}
	if r.Intn(5) == 0 {
		req.Fields = append(req.Fields, HF{"cookie", Pick(r, "a=b", "session=abc123; theme=dark")})
	}
	hasBody := req.Method == "POST" || req.Method == "PUT" || req.Method == "PATCH"
	if hasBody && o.MaxBody > 0 {
		sizes := []int{0, 1, 10, 1000, 16384, 16385, 40000, 70000, 150000}
		n := Pick(r, sizes...)
		for n > o.MaxBody {
			n = Pick(r, sizes...)
		}
		req.Body = genBody(rid, n)
		if r.Intn(2) == 0 {
			req.Fields = append(req.Fields, HF{"content-length", fmt.Sprint(n)})
		}
		if r.Intn(2) == 0 {
			req.Fields = append(req.Fields, HF{"content-type", Pick(r, "application/json", "text/plain; charset=utf-8")})
		}
	}
	if o.Trailers && len(req.Body) > 0 && r.Intn(3) == 0 {
		req.Trailers = []HF{{"x-trailer-a", Pick(r, "t1", "")}}
		if r.Intn(2) == 0 {
			req.Trailers = append(req.Trailers, HF{"x-checksum", "abc"})
		}
	}
	l := Lane{Name: fmt.Sprintf("req%d", rid), Req: req, OpensStream: true, After: -1}
	// HEADERS
	fields := []HF{{":method", req.Method}, {":scheme", req.Scheme}, {":path", req.Path}, {":authority", req.Authority}}
	// pseudo-header order is free as long as they precede regular fields
	for i := len(fields) - 1; i > 0; i-- {
		j := r.Intn(i + 1)
		fields[i], fields[j] = fields[j], fields[i]
	}
	fields = append(fields, req.Fields...)
	h := Op{Kind: "headers", Fields: fields, Reps: genReps(r, len(fields), o.Variety), Pad: -1, TableSize: -1}
	if o.Splits {
		h.Splits = genSplits(r)
	}
	if o.Padding {
		h.Pad = genPad(r)
		h.Prio = r.Intn(4) == 0
	}
	h.EndStream = len(req.Body) == 0 && len(req.Trailers) == 0
	l.Ops = append(l.Ops, h)
	// DATA
	if len(req.Body) > 0 || (!h.EndStream && len(req.Trailers) == 0) || len(req.Trailers) > 0 {
		rest := len(req.Body)
		for rest > 0 {
			n := rest
			switch r.Intn(4) {
			case 0:
				n = 1 + r.Intn(min(rest, 64))
			case 1:
				n = 1 + r.Intn(rest)
			}
			if n > 16384 {
				n = 16384
			}
			if r.Intn(10) == 0 {
				l.Ops = append(l.Ops, Op{Kind: "data", Len: 0, Pad: -1, TableSize: -1}) // empty DATA frame
			}
			pad := -1
			if o.Padding {
				pad = genPad(r)
				if pad >= 0 && n+pad+1 > 16384 {
					pad = -1
				}
			}
			rest -= n
			l.Ops = append(l.Ops, Op{Kind: "data", Len: n, Pad: pad, EndStream: rest == 0 && len(req.Trailers) == 0, TableSize: -1})
		}
		if len(req.Body) == 0 && len(req.Trailers) == 0 {
			l.Ops = append(l.Ops, Op{Kind: "data", Len: 0, Pad: -1, EndStream: true, TableSize: -1})
		}
	}
	if len(req.Trailers) > 0 {
		t := Op{Kind: "trailers", Fields: req.Trailers, Reps: genReps(r, len(req.Trailers), o.Variety), Pad: -1, EndStream: true, TableSize: -1}
		if o.Splits {
			t.Splits = genSplits(r)
		}
		l.Ops = append(l.Ops, t)
	}
	// response
	resp := &Resp{Status: Pick(r, respStatuses...), ErrAt: -1}
	nrf := r.Intn(4)
	seen := map[string]bool{}
	for i := 0; i < nrf; i++ {
		n := Pick(r, respNames...)
		if o.Underscore && r.Intn(10) == 0 {
			n = "x_resp_under"
		}
		if seen[n] {
			continue
		}
		seen[n] = true
		resp.Fields = append(resp.Fields, HF{n, Pick(r, respValues...)})
	}
	if r.Intn(12) == 0 {
		// a header list larger than the largest frame: the response block has to be continued
		for j := 0; j < 2+r.Intn(5); j++ {
			resp.Fields = append(resp.Fields, HF{fmt.Sprintf("x-big-%d", j), strings.Repeat(string(rune('a'+j)), 3000+r.Intn(3000))})
		}
	}
	resp.Fields = append(resp.Fields, HF{"x-rid", fmt.Sprint(rid)})
	modes := o.RespModes
	if len(modes) == 0 {
		modes = []string{"buffered"}
	}
	resp.Mode = Pick(r, modes...)
	bs := []int{0, 1, 100, 5000, 16384, 16385, 40000, 100000}
	resp.BodyLen = Pick(r, bs...)
	for resp.BodyLen > o.RespMaxBody {
		resp.BodyLen = Pick(r, bs...)
	}
	if resp.Mode == "stream-zero" {
		resp.BodyLen = 0
	}
	if strings.HasPrefix(resp.Mode, "stream") {
		switch r.Intn(3) {
		case 0:
			lo := resp.BodyLen / 300
			resp.ReadSizes = []int{max(1+r.Intn(100), lo), max(1+r.Intn(20000), lo)}
		case 1:
			resp.ReadSizes = []int{16384}
		}
		resp.EOFWithData = r.Intn(2) == 0
	}
	l.Resp = resp
	if o.Variety {
		junkFlags(r, l.Ops)
	}
	return l
}

func genStrategy(r *RNG) Strategy {
	return Strategy{
		Stay:      Pick(r, 0.0, 0.5, 0.8, 0.95),
		EnvBias:   Pick(r, 0.1, 0.3, 0.6),
		TimeRace:  0,
		TimeSteps: []time.Duration{time.Millisecond, 100 * time.Millisecond, time.Second, 10 * time.Second},
	}
}

func genMask(r *RNG) []string {
	var m []string
	switch r.Intn(4) {
	case 0:
		// every optional point parks
	case 1:
		m = []string{"atomic", "prelock"}
	case 2:
		m = []string{"atomic", "prelock", "net"}
	default:
		m = []string{"atomic", "prelock", "net", "yield"}
	}
	if r.Intn(3) == 0 {
		// park right after every unlock as well: the window in which a goroutine acts on what it read under the lock
		m = append(m, "unlock-on")
	}
	return m
}
