#!/bin/bash
# MANIFEST.setup_cmd: build the framework from files on disk only (offline) and warm the build cache.
set -euo pipefail
V=$(cd "$(dirname "$0")/.." && pwd)
export GOFLAGS=-mod=mod GOPROXY=off GOSUMDB=off GOTOOLCHAIN=local CGO_ENABLED=0
export PATH=/opt/veriftools/go1.26.8/bin:$PATH
go version | grep -q 'go1.26.8' || { echo "setup: go1.26.8 not found" >&2; exit 2; }
mkdir -p "$V/.build"
python3 "$V/overlay/mkoverlay.py" "$V/.build/overlay" >/dev/null
(cd "$V/tools/instr" && go build -o "$V/.build/instr" .)
# warm the cache: std with the overlay, plain and -race, plus the harness dependencies
S=$(mktemp -d /var/tmp/verif-setup-XXXXXX)
trap 'rm -rf "$S"' EXIT
"$V/bin/build.sh" "$S" race >/dev/null
echo "setup ok"
