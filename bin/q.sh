#!/bin/bash
# dev helper: rebuild harness only and run a few runs
set -e
S=${S:-/var/tmp/verif-s1}
/verif/bin/build.sh $S >/dev/null
cd $S; mkdir -p rp; rm -f rp/*
VERIF_REPLAY_DIR=$S/rp VERIF_PROP=${1:-C01} VERIF_SEED=${2:-1} VERIF_FROM=${3:-0} VERIF_TO=${4:-50} ./harness.test -test.run TestWorker > out.jsonl 2> err.txt || { tail -50 err.txt; }
python3 - <<'PY'
import json,collections
c=collections.Counter(); n=0; nt=0; steps=0
ex={}
for l in open('out.jsonl'):
    if not l.startswith('{'): continue
    r=json.loads(l); n+=1; steps+=r['steps']; nt+=r['nontrivial']
    if r.get('violation'):
        for v in [r['violation']]+(r.get('extra_violations') or []):
            s=v['Sig']; c[s]+=1; ex.setdefault(s,(r['run'],v['Detail']))
    elif r.get('stuck'):
        s='STUCK: '+r['stuck'][:150]; c[s]+=1; ex.setdefault(s,(r['run'],''))
print('runs',n,'nontrivial',nt,'avg steps',steps//max(n,1))
for s,k in c.most_common(int(__import__("os").environ.get("TOP","14"))): print(k,s,'| run',ex[s][0],'|',ex[s][1][:300])
PY
