#!/usr/bin/env python3
"""Regenerate /verif/MANIFEST.json from bin/props.py (claimed checks) and the fixed not-applicable list."""
import json, os, sys
V = os.path.dirname(os.path.dirname(os.path.abspath(__file__)))
sys.path.insert(0, os.path.join(V, "bin"))
from props import PROPS

NA = {
    "C03": "pure function of the byte history fed to one HPACK decoder (quantifier: inputs, histories): no schedule, clock, fault or interleaving to simulate; decoder defects that corrupt a message in transit surface in C01/C02/C09 runs (independent x/net encoder on the peer side) but no C03 coverage is claimed",
    "C04": "pure function of a sequence of AppendHeader/SetMaxTableSize calls on one goroutine: nothing to schedule or fail",
    "C05": "pure codec on frame values and byte strings; the reader-fault side of frame parsing is C16, which is claimed",
    "C15": "Huffman coding is a pure function of a byte string",
    "C20": "accept/reject predicate over header lists and bodies (quantifier: inputs); its only concurrency-flavoured clause ('that stream alone') is what C09 and C12 decide",
}
ALL = ["C%02d" % i for i in range(1, 21)]

checks = []
for pid in ALL:
    if pid not in PROPS:
        continue
    P = PROPS[pid]
    checks.append({
        "property_id": pid,
        "quick_cmd": "bin/check %s --tier quick" % pid,
        "thorough_cmd": "bin/check %s --tier thorough" % pid,
        "evidence_file": "evidence/%s.json" % pid,
        "replay_cmd_template": "bin/check %s --replay {path}" % pid,
        "engine": "dsim",
        "level_claimed": {"category": P["level"], "text": P["level_text"], "design_ref": P.get("design_ref", "DESIGN.md §3")},
        "level_note": P["level_note"],
        "technique": P.get("technique", "deterministic simulation with fault injection: seeded search over schedules, fault sequences and workloads; oracle on the recorded history"),
    })
na = []
for pid in ALL:
    if pid in PROPS:
        continue
    reason = NA.get(pid) or "check still under construction in this session (designed in DESIGN.md §3); not claimed until it runs clean on the unchanged tree"
    na.append({"property_id": pid, "reason": reason})

m = {
    "version": 1,
    "setup_cmd": "bin/setup.sh",
    "hooks": {
        "guard": "verif",
        "enable": "no hooks are committed to /repo: every check copies /repo's working tree to a scratch directory and instruments the copy mechanically (tools/instr, go/ast + go/types) with calls into /verif/simrt",
        "baseline_off_cmd": "cd /repo && go test -mod=mod -vet=off -count=1 -timeout 25m ./...",
        "source_commits": [],
        "add_only": True,
    },
    "engines": [{
        "name": "dsim",
        "path": "bin/check",
        "serves_properties": [c["property_id"] for c in checks],
        "kind_free_text": "deterministic simulator: testing/synctest bubble + park/release scheduler over an instrumented copy of the package, seeded select and map order through a runtime overlay, simulated net.Conn with fault injection, scripted x/net peers, per-run sim pools with ownership tracking; recorded tapes replay exactly and are minimised by delta debugging",
    }],
    "checks": checks,
    "not_applicable": na,
    "notes": "Exit codes of bin/check: 0 held on everything explored (KNOWN-FINDING lines possible), 1 VIOLATION line(s), 2 build/watchdog/non-reproducibility trouble (never a verdict). Known findings: /verif/known-findings.txt. Repaired defects are 'fix:' commits in /repo and 'fixed:' lines in that file.",
}
with open(os.path.join(V, "MANIFEST.json"), "w") as f:
    json.dump(m, f, indent=1)
print("MANIFEST.json: %d checks, %d not applicable" % (len(checks), len(na)))
