#!/bin/bash
# usage: build.sh <scratch-dir> [race]
# Copies /repo's package into <scratch-dir>/http2, instruments it, and builds the harness test binary
# <scratch-dir>/harness.test (and harness.race.test with "race") against the copy.
set -euo pipefail
S="$1"; RACE="${2:-}"
V=/verif
REPO=${VERIF_REPO_DIR:-/repo}
export GOFLAGS=-mod=mod GOPROXY=off GOSUMDB=off GOTOOLCHAIN=local CGO_ENABLED=0
export PATH=/opt/veriftools/go1.26.8/bin:$PATH
go version | grep -q 'go1.26.8' || { echo "build: wrong toolchain: $(go version)" >&2; exit 2; }
[ -x $V/.build/instr ] && [ -f $V/.build/overlay/overlay.json ] || { echo "build: run setup first (bin/setup.sh)" >&2; exit 2; }
if [ -n "${VERIF_KEEP_COPY:-}" ] && [ -d "$S/http2" ]; then SKIP=1; else SKIP=; fi
if [ -z "$SKIP" ]; then
rm -rf "$S"; mkdir -p "$S/http2/http2utils"
cp $REPO/*.go "$S/http2/"; rm -f "$S"/http2/*_test.go
cp $REPO/http2utils/*.go "$S/http2/http2utils/"; rm -f "$S"/http2/http2utils/*_test.go
cp $REPO/go.mod $REPO/go.sum "$S/http2/"
printf '\nrequire simrt v0.0.0\nreplace simrt => %s/simrt\n' "$V" >> "$S/http2/go.mod"
$V/.build/instr "$S/http2" > "$S/instr.json" 2> "$S/instr.err" || { echo "build: instrumenter failed:" >&2; cat "$S/instr.err" >&2; exit 2; }
cat > "$S/harness.mod" <<EOM
module harness

go 1.25.0

require (
	github.com/dgrr/http2 v0.0.0
	github.com/valyala/fasthttp v1.72.0
	golang.org/x/net v0.56.0
	simrt v0.0.0
)

replace github.com/dgrr/http2 => $S/http2
replace simrt => $V/simrt
EOM
cp $REPO/go.sum "$S/harness.sum"
fi
cd $V/harness
go test -c -modfile="$S/harness.mod" -overlay $V/.build/overlay/overlay.json -o "$S/harness.test" . 2> "$S/build.err" || { echo "build: harness does not compile against the instrumented copy:" >&2; cat "$S/build.err" >&2; exit 2; }
if [ "$RACE" = race ]; then
  CGO_ENABLED=1 go test -c -race -modfile="$S/harness.mod" -overlay $V/.build/overlay/overlay.json -o "$S/harness.race.test" . 2> "$S/build.err" || { echo "build: race harness does not compile:" >&2; cat "$S/build.err" >&2; exit 2; }
fi
echo "$S"
