"""Per-property metadata used by bin/check (levels, non-triviality rules, fault kinds, assumptions)."""

PROPS = {
    "C01": {
        "level": "exploration",
        "level_text": "Seeded exploration: the real server runs on a simulated connection; a scripted peer with an independent codec sends multiplexed well-formed requests with seeded encodings, fragmentation, interleavings and handler completion orders. Per stream the oracle demands exactly one handler call that saw exactly the request, exactly the produced response at the peer, END_STREAM once, completion at quiescence. Sampling is the right level: the quantifier ranges over unbounded inputs x schedules.",
        "level_note": "Trusted: x/net framer+hpack as reference codec, the reference HPACK encoder (self-checked against x/net on every block), fasthttp's request accessors as the lossless view of a request. Map iteration order pinned. Bodies <= 150 KB, <= 8 streams per run.",
        "design_ref": "DESIGN.md §3 C01",
        "rule": "a run = one seeded plan (≤16 multiplexed well-formed requests, reference-encoder representation choices, "
                "HEADERS/CONTINUATION split points, padding, priority, DATA chunking incl. empty frames, response shapes) executed "
                "under one seeded schedule (goroutine interleaving, select arms, transport fragmentation, handler completion order). "
                "Non-trivial: ≥2 streams overlapped in time and ≥1 header block was split or padded. Distinct: distinct hash of the "
                "sequence of context switches and environment actions.",
        "faults": ["frag", "delay/reorder-dirs", "backpressure", "handler gate order", "short reads of body streams"],
        "probes_expected": ["header-block-split", "headers-padded", "data-padded", "data-empty"],
    },
    "C06": {
        "level": "exploration",
        "level_text": "Seeded exploration with the peer owning the authoritative window ledger: every DATA frame in the server's output order is checked against what the peer's initial windows, SETTINGS changes (increase counted from sending, decrease from the server's ACK) and WINDOW_UPDATEs have granted, and against the peer's MAX_FRAME_SIZE; liveness is judged at drain quiescence after the peer granted ample credit.",
        "level_note": "Permissive in both directions by construction, so a conforming sender is never flagged. Known finding: DATA sent after the ACK of a SETTINGS decrease (see known-findings.txt) is reported as KNOWN-FINDING, any other overrun is a VIOLATION.",
        "design_ref": "DESIGN.md §3 C06",
        "rule": "a run = seeded plan (1-5 responses sized around/above the windows, buffered or streamed; peer initial window from {0,1,100,...}; control lane of WINDOW_UPDATEs and SETTINGS_INITIAL_WINDOW_SIZE / MAX_FRAME_SIZE changes) under one seeded schedule. Non-trivial: at least one DATA frame left a window (stream or connection) at exactly zero, i.e. the window was the binding constraint. Distinct: interleaving hash.",
        "faults": ["frag", "delay/reorder-dirs", "window stall (peer withholds credit)", "handler gate order", "short reads of body streams"],
        "probes_expected": ["window-bound"],
    },
    "C09": {
        "level": "exploration",
        "level_text": "Seeded exploration: one kind of stream-scoped offence from a catalogue of 24 (malformed header fields at a chosen position, over-limit bodies, refused streams, peer RST at each point of a stream's life, handler panic, per-stream flow-control errors, body-reader errors) is placed on 1-3 streams among concurrent well-formed requests, with a further request after everything else; every non-offending stream must pass the full C01 oracle and the connection must not be torn down.",
        "level_note": "Family c09 (5/6 of the runs) keeps to offence kinds and variants for which the server is expected to behave; family c09-all (1/6) also draws the variants behind the eight known findings (signatures '<variant>/<offence>/<rule>' in known-findings.txt), so their neighbourhood stays exercised without blinding the search.",
        "design_ref": "DESIGN.md §3 C09",
        "rule": "a run = seeded plan (2-7 requests, 1-3 of them offending with one offence kind and variant, one request after all others) under one seeded schedule. Non-trivial: an offending stream was opened, at least one well-formed stream was opened after it, and at least 3 streams were seen by the peer. Distinct: interleaving hash.",
        "faults": ["frag", "delay/reorder-dirs", "handler gate order", "handler panic", "body-reader error", "peer RST_STREAM at scheduled points"],
        "probes_expected": ["offender-stopped-after-rst"],
    },
    "C17": {
        "level": "fault_enumeration",
        "level_text": "Fault injection over seeded client byte streams: well-formed multiplexed traffic (the C01 generator) is cut cleanly or reset at a byte offset, bit-flipped, structurally mutated (frame insert/delete/duplicate/reorder, flag flips, retargeted stream ids, raw frames of any type), followed by bursts longer than the internal queues, with the server's write side failing at a byte or the peer no longer reading, and handlers held past the disconnect. Then the peer goes away for good and the fake clock is advanced by an hour. Oracle: no recovered or logged panic, ServeConn has returned, only still-held handlers are alive, no request context recycled under a handler, and after the handlers are released nothing is left.",
        "level_note": "Offsets and mutations are sampled (seeded), not enumerated exhaustively. 'Gone' = the transport is closed in both directions (writes fail). Liveness is judged only at quiescence after the clock has been advanced by an hour of fake time. Five wedge signatures are known findings (blocked queue sends after a loop has exited).",
        "design_ref": "DESIGN.md §3 C17",
        "rule": "a run = seeded plan (C01 traffic, optional mutations and bursts, one fault: cut-eof@n / cut-rst@n / werr@n / stall / bit flips / disconnect with handlers held) under one seeded schedule, then disconnect, +1 h, release handlers. Non-trivial: a fault fired while a request or handler was in flight, or more than 100 frames were sent (queue pressure). Distinct: interleaving hash.",
        "faults": ["cut-eof@n", "cut-rst@n", "werr@n/short-write", "stall (peer stops reading)", "bit flips", "close-peer with handlers held", "frame mutations", "bursts > queue capacity", "frag", "clock advance (ReadTimeout, IdleTimeout, ping timers)"],
        "probes_expected": ["fault-cut-eof", "fault-cut-rst", "fault-werr", "fault-stall-s2c", "fault-flip", "fault-close-peer"],
    },
    "C10": {
        "level": "exploration",
        "level_text": "Seeded exploration: one connection-scoped offence from a catalogue of 27 (frame-size, sequencing, SETTINGS-value, flow-control, stream-identifier and HPACK violations) is placed inside well-formed multiplexed traffic, with 0-3 requests before it, and the peer then keeps sending, goes silent, stops reading or disconnects; a second family sets IdleTimeout and lets requests race the idle timer on the fake clock. Oracle: every GOAWAY's last-stream-id >= every stream id ever handed to a handler; nothing opened after the offence is dispatched; the GOAWAY code is one RFC 7540 allows for the offence; no unrecovered or recovered panic; ServeConn has returned at quiescence an hour (fake) after the error with the peer still connected, and again after the peer left.",
        "level_note": "Liveness is judged only at quiescence after the clock was advanced by an hour with every promised handler released. A worker process killed by an unrecovered panic on a goroutine of the server is re-run twice from (seed, run) in fresh processes and reported as process-panic/<function>. Known findings: GOAWAY from the read loop carries last-stream-id 0; GOAWAY from the stream loop carries the offending stream's id; queue wedges shared with C17.",
        "design_ref": "DESIGN.md §3 C10, Appendix B",
        "rule": "a run = seeded plan (0-3 requests before, one offence, trailing behaviour keep-sending/silent/stall/disconnect; or idle-timeout racing requests) under one seeded schedule, then +1 h, disconnect, +1 h. Non-trivial: a GOAWAY was observed and at least one stream had been opened or dispatched before it. Distinct: interleaving hash.",
        "faults": ["connection-scoped protocol offences (27 kinds)", "trailing traffic bursts", "stall (peer stops reading)", "close-peer", "frag", "delay/reorder-dirs", "clock advance (idle timer, ping timer, drain timeout)", "handler gate order"],
        "probes_expected": ["fault-stall-s2c", "fault-close-peer"],
    },
    "C13": {
        "level": "exploration",
        "level_text": "Seeded exploration of adversarial frame schedules of length 40/150/400 (rapid HEADERS+RST_STREAM, half-open streams, PRIORITY on ever-new idle ids, CONTINUATION flood, over-sent and over-declared bodies, PING and SETTINGS floods against a peer that does not read, mixtures) with every handler held. Online: running handlers <= MaxConcurrentStreams, no handler is given a body above MaxRequestBodySize or a header list above MaxHeaderListSize. At the quiescence that ends the flood: live Stream / RequestCtx / FrameHeader objects (from the per-run sim pools) and the bytes they retain are under bounds computed from the limits and the three queue capacities only.",
        "level_note": "Bounds: Stream, RequestCtx <= 2*MaxConcurrentStreams+8; FrameHeader <= 3*128+16; retained bytes <= 2*MCS*(MaxRequestBodySize+MaxHeaderListSize+64Ki)+400*17000. The closed-stream ring is a local variable and is only observed through what it keeps alive. Known finding: PRIORITY on idle ids.",
        "design_ref": "DESIGN.md §3 C13",
        "rule": "a run = one flood kind x length x limits under one seeded schedule, handlers held. Non-trivial: the handler gauge reached MaxConcurrentStreams, or the server refused/reset a stream or sent GOAWAY, or more than 128 frames were sent. Distinct: interleaving hash.",
        "faults": ["adversarial frame floods (9 kinds)", "held handlers", "stall (peer stops reading)", "backpressure"],
        "probes_expected": ["fault-stall-s2c"],
        "budget": {"quick": 35, "thorough": 600},
    },
    "C14": {
        "level": "exploration",
        "level_text": "Seeded exploration with the peer as a sender model that blocks exactly when its ledger says the window is exhausted: uploads on 2-5 streams totalling 1.2-2.5 times the server's connection receive window, in full, random or padded DATA frames; and (client role) downloads against the client's 1 MiB windows incl. padded frames with empty data and requests the caller cancels. Oracle: no WINDOW_UPDATE with increment 0, no send window above 2^31-1, and at drain quiescence no stream is starved (everything was sent and answered).",
        "level_note": "Server role: uploads that end in a stream error after DATA was sent cannot be driven to starvation on this tree because the frames still in flight after the server's RST_STREAM tear the connection down first (C09 known finding 'inflight'); that half of the quantifier is therefore not covered. Client role: see families c14-client.",
        "design_ref": "DESIGN.md §3 C14",
        "rule": "a run = seeded upload/download plan under one seeded schedule. Non-trivial: the bytes sent exceeded the receiver's connection window, so that progress depended on credit being returned. Distinct: interleaving hash.",
        "faults": ["frag", "delay/reorder-dirs", "backpressure", "handler gate order", "padding counted against the window", "caller cancel (client role)"],
        "probes_expected": ["data-padded"],
    },
    "C02": {
        "level": "exploration",
        "level_text": "Seeded exploration: 1-6 concurrent callers drive the real client connection (http2.Conn: Handshake, Write, Ctx.Err) on a simulated link against a conforming scripted server with an independent codec; requests are buffered or streamed (declared, unknown, zero length, short reads), responses are interleaved, padded, chunked (empty DATA frames included) and HPACK-encoded with seeded representations. Oracle: the server decodes exactly the request given (pseudo-headers, fields minus connection-specific ones, body, END_STREAM once) on odd, strictly increasing stream ids; every caller gets exactly the status, fields and body sent on its own stream.",
        "level_note": "Raw http2.Conn API with hand-made Ctx values, as the package's own tests use it. ':path' is compared with fasthttp's own reading of the request URI. A response may start before the request ended only for requests without a body (early responses to uploads are exercised by C12). Family c02-split (1/5 of the runs) continues response header blocks in CONTINUATION frames: known finding.",
        "design_ref": "DESIGN.md §3 C02",
        "rule": "a run = seeded plan (1-6 requests with bodies of all shapes, scripted responses) under one seeded schedule. Non-trivial: at least 2 requests were in flight together (their lifetimes overlap). Distinct: interleaving hash.",
        "faults": ["frag", "delay/reorder-dirs", "backpressure", "short reads of body streams", "response interleaving order"],
        "probes_expected": ["headers-padded", "data-padded", "data-empty"],
    },
}
