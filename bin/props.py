"""Per-property metadata used by bin/check (levels, non-triviality rules, fault kinds, assumptions)."""

PROPS = {
    "C01": {
        "level": "exploration",
        "rule": "a run = one seeded plan (≤16 multiplexed well-formed requests, reference-encoder representation choices, "
                "HEADERS/CONTINUATION split points, padding, priority, DATA chunking incl. empty frames, response shapes) executed "
                "under one seeded schedule (goroutine interleaving, select arms, transport fragmentation, handler completion order). "
                "Non-trivial: ≥2 streams overlapped in time and ≥1 header block was split or padded. Distinct: distinct hash of the "
                "sequence of context switches and environment actions.",
        "faults": ["frag", "delay/reorder-dirs", "backpressure", "handler gate order", "short reads of body streams"],
        "probes_expected": ["header-block-split", "headers-padded", "data-padded", "data-empty"],
    },
}
