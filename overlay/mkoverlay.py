#!/usr/bin/env python3
"""Generate the go build -overlay used for the harness binary only.

Patches (in copies, never in GOROOT) of go1.26.8's runtime:
  runtime/select.go                 select poll-order shuffle draws from a seedable xorshift
                                    state for goroutines inside a synctest bubble
  internal/runtime/maps/*.go        per-map seeds and iterator offsets are constants
  runtime/alg.go                    process hash keys are constants
Every edit asserts that the line it expects is there; a mismatch is a setup failure (exit 2).
"""
import json, os, sys

GOROOT = "/opt/veriftools/go1.26.8"
out = sys.argv[1] if len(sys.argv) > 1 else os.path.join(os.path.dirname(os.path.abspath(__file__)), "..", ".build", "overlay")
out = os.path.abspath(out)
os.makedirs(out, exist_ok=True)

def die(msg):
    print("mkoverlay: " + msg, file=sys.stderr)
    sys.exit(2)

def patch(rel, edits, append=""):
    src = os.path.join(GOROOT, "src", rel)
    text = open(src).read()
    for old, new, count in edits:
        n = text.count(old)
        if n != count:
            die(f"{rel}: expected {count} occurrence(s) of {old!r}, found {n}")
        text = text.replace(old, new)
    text += append
    dst = os.path.join(out, rel.replace("/", "__"))
    with open(dst, "w") as f:
        f.write(text)
    return src, dst

repl = {}
s, d = patch("runtime/select.go",
    [("j := cheaprandn(uint32(norder + 1))", "j := simSelectRandn(gp, uint32(norder+1))", 1)],
    append='''

// --- verif simulation patch: seedable select shuffle inside synctest bubbles ---
var simSelectState uint64

//go:linkname simSelectSeed runtime.simSelectSeed
func simSelectSeed(s uint64) { simSelectState = s }

func simSelectRandn(gp *g, n uint32) uint32 {
	if simSelectState == 0 || gp.bubble == nil {
		return cheaprandn(n)
	}
	x := simSelectState
	x ^= x << 13
	x ^= x >> 7
	x ^= x << 17
	simSelectState = x
	return uint32((x >> 11) % uint64(n))
}
''')
repl[s] = d
s, d = patch("internal/runtime/maps/map.go", [("m.seed = uintptr(rand())", "m.seed = uintptr(simRand())", 4)])
repl[s] = d
s, d = patch("internal/runtime/maps/table.go",
    [("it.entryOffset = rand()", "it.entryOffset = simRand()", 1), ("it.dirOffset = rand()", "it.dirOffset = simRand()", 1)])
repl[s] = d
s, d = patch("internal/runtime/maps/runtime.go", [], append='''

// --- verif simulation patch: constant map seeds and iteration offsets ---
func simRand() uint64 { return 0x9E3779B97F4A7C15 }
''')
repl[s] = d
s, d = patch("runtime/alg.go",
    [("hashkey[i] = uintptr(bootstrapRand())", "hashkey[i] = uintptr(0xD1B54A32D192ED03 * uint64(i+1))", 1),
     ("key[i] = bootstrapRand()", "key[i] = 0x9E3779B97F4A7C15 * uint64(i+1)", 1)])
repl[s] = d
with open(os.path.join(out, "overlay.json"), "w") as f:
    json.dump({"Replace": repl}, f, indent=1)
print(os.path.join(out, "overlay.json"))
