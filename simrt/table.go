package simrt

// Small open-addressing tables used instead of Go maps for state that goroutines of the system under
// test touch through simrt (under simrt's own, race-detector-invisible, locking). Go's map runtime reports
// accesses to the race detector on behalf of its caller even from //go:norace functions; these tables do not.

type goTable struct {
	ids []uint64
	gs  []*G
	n   int
}

//go:norace
func (t *goTable) get(id uint64) *G {
	if len(t.ids) == 0 {
		return nil
	}
	m := uint64(len(t.ids) - 1)
	for i := id * 0x9E3779B97F4A7C15 >> 32 & m; ; i = (i + 1) & m {
		switch t.ids[i] {
		case id:
			return t.gs[i]
		case 0:
			return nil
		}
	}
}

//go:norace
func (t *goTable) put(id uint64, g *G) {
	if (t.n+1)*2 > len(t.ids) {
		old := *t
		size := 64
		if len(old.ids) > 0 {
			size = len(old.ids) * 2
		}
		t.ids, t.gs, t.n = make([]uint64, size), make([]*G, size), 0
		for i, k := range old.ids {
			if k != 0 && k != ^uint64(0) {
				t.put(k, old.gs[i])
			}
		}
	}
	m := uint64(len(t.ids) - 1)
	for i := id * 0x9E3779B97F4A7C15 >> 32 & m; ; i = (i + 1) & m {
		if t.ids[i] == 0 || t.ids[i] == ^uint64(0) || t.ids[i] == id {
			if t.ids[i] != id {
				t.n++
			}
			t.ids[i], t.gs[i] = id, g
			return
		}
	}
}

//go:norace
func (t *goTable) del(id uint64) {
	if len(t.ids) == 0 {
		return
	}
	m := uint64(len(t.ids) - 1)
	for i := id * 0x9E3779B97F4A7C15 >> 32 & m; ; i = (i + 1) & m {
		switch t.ids[i] {
		case id:
			t.ids[i], t.gs[i] = ^uint64(0), nil // tombstone
			return
		case 0:
			return
		}
	}
}

// ptrTable maps an object's address to its tracker record.
type ptrTable struct {
	keys []uintptr
	vals []*objInfo
	objs []any
	n    int
}

//go:norace
func (t *ptrTable) get(k uintptr) *objInfo {
	if len(t.keys) == 0 {
		return nil
	}
	m := uintptr(len(t.keys) - 1)
	for i := (k >> 4) * 2654435761 & m; ; i = (i + 1) & m {
		switch t.keys[i] {
		case k:
			return t.vals[i]
		case 0:
			return nil
		}
	}
}

//go:norace
func (t *ptrTable) put(k uintptr, x any, v *objInfo) {
	if (t.n+1)*2 > len(t.keys) {
		old := *t
		size := 64
		if len(old.keys) > 0 {
			size = len(old.keys) * 2
		}
		t.keys, t.vals, t.objs, t.n = make([]uintptr, size), make([]*objInfo, size), make([]any, size), 0
		for i, kk := range old.keys {
			if kk != 0 {
				t.put(kk, old.objs[i], old.vals[i])
			}
		}
	}
	m := uintptr(len(t.keys) - 1)
	for i := (k >> 4) * 2654435761 & m; ; i = (i + 1) & m {
		if t.keys[i] == 0 || t.keys[i] == k {
			if t.keys[i] != k {
				t.n++
			}
			t.keys[i], t.vals[i], t.objs[i] = k, v, x
			return
		}
	}
}
