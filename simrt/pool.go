package simrt

import (
	"hash/fnv"
	"reflect"
	"sync"
	"unsafe"
)

// Pool policies (chosen per run).
const (
	PoolLIFO       = 0 // most recently released object is handed out next
	PoolFIFO       = 1 // oldest released object first
	PoolQuarantine = 2 // released objects are never handed out again in this run
)

type objInfo struct {
	free    bool
	putSite string
	putG    string
	getSite string
	hash    uint64
	owner   string // harness-registered owner (e.g. a running handler), "" if none
}

type simPool struct {
	p     *sync.Pool
	Name  string
	free  []any
	objs  ptrTable
	Live  int
	HWM   int
	Gets  int
	Puts  int
	News  int
	order int
}

// PoolViolation is an ownership fault seen by the tracker.
type PoolViolation struct {
	Kind     string // double-put | write-after-release | recycled-while-owned | handed-out-while-owned
	Pool     string
	Site     string
	PrevSite string
	G        string
	Detail   string
}

// PoolSet is the per-run replacement for every sync.Pool the instrumented package uses.
type PoolSet struct {
	r      *Run
	mu     sync.Mutex
	pools  []*simPool // looked up by linear search: a dozen pools at most
	list   []*simPool
	Policy int
	Viol   []PoolViolation
	owned  map[any]string
}

func newPoolSet(r *Run) *PoolSet {
	return &PoolSet{r: r, owned: map[any]string{}}
}

//go:norace
func (ps *PoolSet) pool(p *sync.Pool) *simPool {
	for _, sp := range ps.list {
		if sp.p == p {
			return sp
		}
	}
	sp := &simPool{p: p, order: len(ps.list)}
	ps.list = append(ps.list, sp)
	return sp
}

func objKey(x any) uintptr {
	v := reflect.ValueOf(x)
	if v.Kind() == reflect.Pointer {
		return v.Pointer()
	}
	return 0
}

//go:norace
func (ps *PoolSet) gname() string {
	gid := goid()
	ps.r.mu.Lock()
	defer ps.r.mu.Unlock()
	if g := ps.r.byGoid.get(gid); g != nil {
		return g.Name
	}
	return "?"
}

// PoolGet replaces P.Get().
func PoolGet(p *sync.Pool, site string) any {
	r := current()
	if r == nil {
		return p.Get()
	}
	ps := r.Pools
	raceDisable()
	x := poolGetLocked(ps, p, site)
	raceEnable()
	if x != nil {
		raceAcquireObj(x) // what sync.Pool gives: the Put of this very object happens before its Get
	}
	return x
}

//go:norace
func poolGetLocked(ps *PoolSet, p *sync.Pool, site string) any {
	gn := ps.gname()
	ps.mu.Lock()
	defer ps.mu.Unlock()
	sp := ps.pool(p)
	sp.Gets++
	var x any
	if ps.Policy != PoolQuarantine && len(sp.free) > 0 {
		if ps.Policy == PoolLIFO {
			x = sp.free[len(sp.free)-1]
			sp.free = sp.free[:len(sp.free)-1]
		} else {
			x = sp.free[0]
			sp.free = sp.free[1:]
		}
		oi := sp.objs.get(objKey(x))
		if h := shallowHash(x); h != oi.hash {
			ps.Viol = append(ps.Viol, PoolViolation{Kind: "write-after-release", Pool: sp.Name, Site: site, PrevSite: oi.putSite, G: gn,
				Detail: "object changed between Put and the next Get"})
		}
		if own := ps.owned[x]; own != "" {
			ps.Viol = append(ps.Viol, PoolViolation{Kind: "handed-out-while-owned", Pool: sp.Name, Site: site, PrevSite: oi.putSite, G: gn, Detail: "owner " + own})
		}
		oi.free = false
		oi.getSite = site
	} else {
		if p.New == nil {
			return nil
		}
		x = p.New()
		sp.News++
		if sp.Name == "" {
			sp.Name = reflect.TypeOf(x).String()
		}
		sp.objs.put(objKey(x), x, &objInfo{getSite: site})
	}
	sp.Live++
	if sp.Live > sp.HWM {
		sp.HWM = sp.Live
	}
	return x
}

// PoolPut replaces P.Put(x).
//go:norace
func PoolPut(p *sync.Pool, x any, site string) {
	r := current()
	if r == nil {
		p.Put(x)
		return
	}
	if x == nil {
		return
	}
	raceReleaseObj(x)
	raceDisable()
	defer raceEnable()
	ps := r.Pools
	gn := ps.gname()
	ps.mu.Lock()
	defer ps.mu.Unlock()
	sp := ps.pool(p)
	sp.Puts++
	if sp.Name == "" {
		sp.Name = reflect.TypeOf(x).String()
	}
	oi := sp.objs.get(objKey(x))
	if oi == nil {
		// object not obtained from the pool in this run (allocated directly): adopt it
		oi = &objInfo{}
		sp.objs.put(objKey(x), x, oi)
		sp.Live++
	}
	if oi.free {
		ps.Viol = append(ps.Viol, PoolViolation{Kind: "double-put", Pool: sp.Name, Site: site, PrevSite: oi.putSite, G: gn,
			Detail: "first released by " + oi.putG})
		return // keep the free list duplicate-free so the run itself stays meaningful
	}
	if own := ps.owned[x]; own != "" {
		ps.Viol = append(ps.Viol, PoolViolation{Kind: "recycled-while-owned", Pool: sp.Name, Site: site, G: gn, Detail: "owner " + own})
	}
	oi.free = true
	oi.putSite = site
	oi.putG = gn
	oi.hash = shallowHash(x)
	sp.Live--
	sp.free = append(sp.free, x)
}

// Own registers that harness code (a handler) is using x until Disown.
//go:norace
func Own(x any, who string) {
	r := current()
	if r == nil {
		return
	}
	raceDisable()
	defer raceEnable()
	ps := r.Pools
	ps.mu.Lock()
	ps.owned[x] = who
	// already in a pool's free list? then it was recycled under the owner's feet earlier
	for _, sp := range ps.list {
		if oi := sp.objs.get(objKey(x)); oi != nil && oi.free {
			ps.Viol = append(ps.Viol, PoolViolation{Kind: "recycled-while-owned", Pool: sp.Name, Site: "own", PrevSite: oi.putSite, G: who, Detail: "object was already released when its owner got it"})
		}
	}
	ps.mu.Unlock()
}

// Disown ends the ownership registered by Own.
//go:norace
func Disown(x any) {
	r := current()
	if r == nil {
		return
	}
	raceDisable()
	defer raceEnable()
	ps := r.Pools
	ps.mu.Lock()
	delete(ps.owned, x)
	ps.mu.Unlock()
}

// CheckFree re-hashes every object sitting in a free list (end of run, and periodically).
//go:norace
func (ps *PoolSet) CheckFree() {
	ps.mu.Lock()
	defer ps.mu.Unlock()
	for _, sp := range ps.list {
		seen := map[any]bool{}
		for _, x := range sp.free {
			if seen[x] {
				ps.Viol = append(ps.Viol, PoolViolation{Kind: "double-put", Pool: sp.Name, Site: "free-list", Detail: "object twice in the free list"})
			}
			seen[x] = true
			oi := sp.objs.get(objKey(x))
			if h := shallowHash(x); h != oi.hash {
				ps.Viol = append(ps.Viol, PoolViolation{Kind: "write-after-release", Pool: sp.Name, Site: "end-of-run", PrevSite: oi.putSite, G: oi.putG,
					Detail: "object changed after Put"})
				oi.hash = h
			}
		}
	}
}

// PoolStat is a snapshot of one pool.
type PoolStat struct {
	Name             string
	Live, HWM        int
	Gets, Puts, News int
	RetainedBytes    int
}

// Stats returns per-pool gauges. With bytes=true it also sums cap() of every []byte field of live objects.
func (ps *PoolSet) Stats(bytes bool) []PoolStat {
	ps.mu.Lock()
	defer ps.mu.Unlock()
	out := make([]PoolStat, 0, len(ps.list))
	for _, sp := range ps.list {
		st := PoolStat{Name: sp.Name, Live: sp.Live, HWM: sp.HWM, Gets: sp.Gets, Puts: sp.Puts, News: sp.News}
		if bytes {
			for i, k := range sp.objs.keys {
				if k != 0 && !sp.objs.vals[i].free {
					st.RetainedBytes += retained(sp.objs.objs[i])
				}
			}
		}
		out = append(out, st)
	}
	return out
}

// shallowHash hashes the object's own memory: scalars, nested structs and arrays by value, slice
// headers, pointer identities. It never follows a pointer, so memory owned by somebody else is not part of it.
func shallowHash(x any) uint64 {
	if RaceEnabled {
		// reading a pooled object's memory through reflect would itself be reported against the next owner's writes;
		// in race builds a write after release shows up as a data race with the next owner instead
		return 0
	}
	v := reflect.ValueOf(x)
	if v.Kind() != reflect.Pointer || v.IsNil() {
		return 0
	}
	h := fnv.New64a()
	var buf [8]byte
	put := func(u uint64) {
		for i := 0; i < 8; i++ {
			buf[i] = byte(u >> (8 * i))
		}
		h.Write(buf[:])
	}
	var walk func(v reflect.Value, depth int)
	walk = func(v reflect.Value, depth int) {
		switch v.Kind() {
		case reflect.Bool:
			if v.Bool() {
				put(1)
			} else {
				put(0)
			}
		case reflect.Int, reflect.Int8, reflect.Int16, reflect.Int32, reflect.Int64:
			put(uint64(v.Int()))
		case reflect.Uint, reflect.Uint8, reflect.Uint16, reflect.Uint32, reflect.Uint64, reflect.Uintptr:
			put(v.Uint())
		case reflect.Float32, reflect.Float64:
			put(uint64(v.Float()))
		case reflect.String:
			h.Write([]byte(v.String()))
			put(uint64(v.Len()))
		case reflect.Slice:
			put(uint64(v.Len()))
			if v.Len() > 0 || v.Cap() > 0 {
				put(uint64(v.Pointer()))
			}
		case reflect.Pointer, reflect.Map, reflect.Chan, reflect.Func, reflect.UnsafePointer:
			put(uint64(v.Pointer()))
		case reflect.Interface:
			if v.IsNil() {
				put(0)
			} else {
				e := v.Elem()
				switch e.Kind() {
				case reflect.Pointer, reflect.Map, reflect.Chan, reflect.Func, reflect.UnsafePointer:
					put(uint64(e.Pointer()))
				default:
					put(1)
				}
			}
		case reflect.Array:
			if v.Type().Elem().Kind() == reflect.Uint8 {
				for i := 0; i < v.Len(); i++ {
					buf[0] = byte(v.Index(i).Uint())
					h.Write(buf[:1])
				}
			} else if depth < 6 {
				for i := 0; i < v.Len(); i++ {
					walk(v.Index(i), depth+1)
				}
			}
		case reflect.Struct:
			t := v.Type()
			// synchronisation primitives and timers change state legitimately; skip their innards
			if t.PkgPath() == "sync" || t.PkgPath() == "sync/atomic" || t.PkgPath() == "time" || t.PkgPath() == "internal/sync" {
				return
			}
			if depth < 6 {
				for i := 0; i < v.NumField(); i++ {
					walk(v.Field(i), depth+1)
				}
			}
		}
	}
	e := v.Elem()
	if e.Kind() == reflect.Struct && e.Type().PkgPath() != "" && !isRepoType(e.Type()) {
		// foreign types (fasthttp.RequestCtx): identity only
		return 1
	}
	walk(e, 0)
	return h.Sum64()
}

func isRepoType(t reflect.Type) bool {
	p := t.PkgPath()
	return p == "github.com/dgrr/http2" || p == "simrt"
}

// retained sums cap() of the []byte fields reachable by value (and through the request/response of a ctx).
func retained(x any) int {
	v := reflect.ValueOf(x)
	if v.Kind() != reflect.Pointer || v.IsNil() {
		return 0
	}
	total := 0
	var walk func(v reflect.Value, depth int)
	walk = func(v reflect.Value, depth int) {
		if depth > 8 {
			return
		}
		switch v.Kind() {
		case reflect.Slice:
			if v.Type().Elem().Kind() == reflect.Uint8 {
				total += v.Cap()
			} else if v.Type().Elem().Kind() == reflect.Struct {
				for i := 0; i < v.Len() && i < 4096; i++ {
					walk(v.Index(i), depth+1)
				}
			}
		case reflect.Struct:
			for i := 0; i < v.NumField(); i++ {
				walk(v.Field(i), depth+1)
			}
		case reflect.Array:
			if v.Type().Elem().Kind() == reflect.Struct {
				for i := 0; i < v.Len(); i++ {
					walk(v.Index(i), depth+1)
				}
			}
		case reflect.Pointer:
			// follow only pointers to byte buffers owned by the object (bytebufferpool.ByteBuffer etc.)
			if !v.IsNil() && v.Type().Elem().Kind() == reflect.Struct && v.Type().Elem().NumField() <= 3 && depth < 4 {
				walk(v.Elem(), depth+1)
			}
		}
	}
	walk(v.Elem(), 0)
	return total
}

var _ = unsafe.Pointer(nil)
