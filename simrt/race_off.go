//go:build !race

package simrt

// RaceEnabled reports whether the binary was built with -race.
const RaceEnabled = false

func raceDisable()       {}
func raceEnable()        {}
func raceReleaseObj(any) {}
func raceAcquireObj(any) {}
