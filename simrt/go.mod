module simrt

go 1.25.0
