// Package simrt is the runtime the instrumented copy of github.com/dgrr/http2 calls into.
//
// Outside a simulated run (no current Run) every entry point is a pass-through to the
// operation it replaced, so the instrumented package behaves like the original.
// Inside a run every entry point parks the calling goroutine on a per-goroutine channel
// after telling the scheduler where it is; the scheduler (the bubble's root goroutine)
// releases exactly one parked goroutine at a time.
package simrt

import (
	"bytes"
	"runtime"
	"strconv"
	"sync"
	"sync/atomic"
)

// Kind classifies a park point.
type Kind uint8

const (
	KYield  Kind = iota // optional preemption point before a communication
	KWoke               // mandatory: goroutine was just woken by a channel operation / select / net read
	KLock               // mandatory: blocked on a mutex held by somebody else
	KStart              // mandatory: first instruction of a goroutine
	KAtomic             // optional: before an atomic operation
	KPreLock            // optional: before acquiring a mutex
	KNet                // optional: before/after a transport operation
	KUser               // harness code (handler gates, callers)
	KUnlock             // optional: right after releasing a mutex (off unless a plan asks for it: "unlock-on")
	nKinds
)

// NKinds is the number of park point kinds (the length of a Mask).
const NKinds = int(nKinds)

var kindNames = [...]string{"yield", "woke", "lock", "start", "atomic", "prelock", "net", "user", "unlock"}

func (k Kind) String() string { return kindNames[k] }

// G is one registered goroutine of a run.
type G struct {
	Name   string
	wake   chan struct{}
	spawn  map[string]int // per-site child counter
	Exited bool
	Sys    bool // started by repo code (instrumented go statement / timer), not by the harness
	// At is the last blocking-capable site the goroutine announced (select, blocked send/receive),
	// recorded even when the park point itself is masked: tells where a goroutine that never came back is.
	At string
}

// ParkReq is what a goroutine hands to the scheduler when it parks.
type ParkReq struct {
	G    *G
	Site string
	Kind Kind
	Obj  any // *sync.Mutex for KLock
}

// Run is the state of one simulated run.
type Run struct {
	Req chan ParkReq

	mu     sync.Mutex // sim-internal; never held across a park
	byGoid goTable
	all    []*G
	timers map[string]int
	anon   int

	// Mask[k] == true switches optional park points of kind k off for this run.
	Mask [nKinds]bool

	dead atomic.Bool

	Pools *PoolSet

	// Recovered panics (value, site).
	Recovers []RecoverEvent

	// SiteHits counts park points reached, by site (coverage).
	SiteHits map[string]int
}

type RecoverEvent struct {
	Site  string
	Value string
	G     string
}

var cur atomic.Pointer[Run]

// betweenRuns is true from the End of a run to the Begin of the next one. A goroutine that reaches simrt in that
// window is a leftover of the run that ended: letting it fall through to the real operation would make it block in
// ways synctest does not consider durable (sync.Mutex) and the bubble could never be torn down. It blocks for ever instead.
var betweenRuns atomic.Bool

func current() *Run {
	r := cur.Load()
	if r == nil && betweenRuns.Load() {
		select {}
	}
	return r
}

// Current returns the active run, or nil.
func Current() *Run { return cur.Load() }

// Begin installs a new run. Must be called from inside the bubble by the scheduler goroutine.
// Quiet makes the calling goroutine (the scheduler) invisible to the race detector as a source of
// synchronisation for the rest of its life: nothing it sends or receives orders the system's goroutines.
func Quiet() { raceDisable() }

// Unquiet undoes Quiet.
func Unquiet() { raceEnable() }

func Begin() *Run {
	r := &Run{
		Req:      make(chan ParkReq, 4096),
		timers:   map[string]int{},
		SiteHits: map[string]int{},
	}
	r.Pools = newPoolSet(r)
	betweenRuns.Store(false)
	cur.Store(r)
	return r
}

// End marks the run dead: any goroutine of it that reaches a park point afterwards blocks for ever.
func (r *Run) End() {
	r.dead.Store(true)
	betweenRuns.Store(true)
	cur.CompareAndSwap(r, nil)
}

//go:norace
func goid() uint64 {
	var buf [40]byte
	b := buf[:runtime.Stack(buf[:], false)]
	b = bytes.TrimPrefix(b, []byte("goroutine "))
	i := bytes.IndexByte(b, ' ')
	if i < 0 {
		return 0
	}
	n, _ := strconv.ParseUint(string(b[:i]), 10, 64)
	return n
}

// selfQ is self() with the runtime's race detector told to ignore simrt's own locking: the simulator must
// not add happens-before edges of its own between goroutines of the system under test.
//go:norace
func (r *Run) selfQ() *G {
	raceDisable()
	g := r.self()
	raceEnable()
	return g
}

//go:norace
func (r *Run) self() *G {
	id := goid()
	r.mu.Lock()
	g := r.byGoid.get(id)
	if g == nil {
		// A goroutine the instrumenter could not name (go statement with arguments, goroutines
		// started by libraries). Deterministic only if such goroutines first park one at a time.
		r.anon++
		g = &G{Name: "anon#" + strconv.Itoa(r.anon), wake: make(chan struct{}, 1), spawn: map[string]int{}}
		r.byGoid.put(id, g)
		r.all = append(r.all, g)
	}
	r.mu.Unlock()
	return g
}

// Goroutines returns every goroutine registered in the run so far.
func (r *Run) Goroutines() []*G {
	r.mu.Lock()
	defer r.mu.Unlock()
	return append([]*G(nil), r.all...)
}

//go:norace
func (r *Run) park(kind Kind, site string, obj any) {
	if r.dead.Load() {
		select {}
	}
	raceDisable()
	g := r.self()
	g.At = site
	r.Req <- ParkReq{G: g, Site: site, Kind: kind, Obj: obj}
	<-g.wake
	raceEnable()
	if r.dead.Load() {
		select {}
	}
}

// Release lets a parked goroutine continue. Scheduler only.
//go:norace
func (r *Run) Release(p ParkReq) {
	raceDisable()
	p.G.wake <- struct{}{}
	raceEnable()
}

func optional(kind Kind, site string, obj any) {
	r := current()
	if r == nil || r.Mask[kind] {
		return
	}
	r.park(kind, site, obj)
}

func mandatory(kind Kind, site string, obj any) {
	r := current()
	if r == nil {
		return
	}
	r.park(kind, site, obj)
}

// Yield is an optional preemption point (before a select or a range over a channel).
func Yield(site string) {
	r := current()
	if r == nil {
		return
	}
	r.selfQ().At = site
	if r.Mask[KYield] {
		return
	}
	r.park(KYield, site, nil)
}

// UserYield is a preemption point in harness code that is never masked.
func UserYield(site string) { mandatory(KUser, site, nil) }

// Woke is a mandatory park right after a goroutine was (possibly) woken by a select.
func Woke(site string, arm int) { mandatory(KWoke, site, nil) }

// NetYield is an optional preemption point around a transport operation.
func NetYield(site string) { optional(KNet, site, nil) }

// NetWoke is a mandatory park after a blocked transport operation was woken.
func NetWoke(site string) { mandatory(KWoke, site, nil) }

// Spawn draws the logical id of a goroutine about to be started at site by the caller.
//go:norace
func Spawn(site string) string {
	r := current()
	if r == nil {
		return ""
	}
	raceDisable()
	g := r.self()
	r.mu.Lock()
	g.spawn[site]++
	n := g.spawn[site]
	r.mu.Unlock()
	raceEnable()
	return g.Name + "/" + site + "#" + strconv.Itoa(n)
}

// GoStart registers the calling goroutine under the id its parent drew and parks at once.
func GoStart(id string) { goStart(id, true) }

//go:norace
func goStart(id string, sys bool) {
	r := current()
	if r == nil || id == "" {
		return
	}
	if r.dead.Load() {
		select {}
	}
	raceDisable()
	gid := goid()
	g := &G{Name: id, wake: make(chan struct{}, 1), spawn: map[string]int{}, Sys: sys}
	r.mu.Lock()
	r.byGoid.put(gid, g)
	r.all = append(r.all, g)
	r.mu.Unlock()
	raceEnable()
	r.park(KStart, id, nil)
}

// GoExit marks the calling goroutine as finished.
//go:norace
func GoExit() {
	r := current()
	if r == nil {
		return
	}
	raceDisable()
	gid := goid()
	r.mu.Lock()
	if g := r.byGoid.get(gid); g != nil {
		g.Exited = true
		r.byGoid.del(gid)
	}
	r.mu.Unlock()
	raceEnable()
}

// Go starts a harness goroutine under the scheduler's control. name must be unique in the run.
// The caller is the scheduler, which is Quiet: the go statement itself is made visible again so that the new
// goroutine inherits what the scheduler has built for it (the fork edge).
func Go(name string, f func()) {
	raceEnable()
	go func() {
		goStart(name, false)
		defer GoExit()
		f()
	}()
	raceDisable()
}

// RegisterSelf names the calling goroutine (the scheduler itself) without parking.
func (r *Run) RegisterSelf(name string) {
	gid := goid()
	r.mu.Lock()
	g := &G{Name: name, wake: make(chan struct{}, 1), spawn: map[string]int{}}
	r.byGoid.put(gid, g)
	r.mu.Unlock()
}

// TimerFunc wraps the callback of time.AfterFunc so that each firing is a named goroutine.
func TimerFunc(f func(), site string) func() {
	r := current()
	if r == nil {
		return f
	}
	raceDisable()
	r.mu.Lock()
	r.timers[site]++
	base := "timer:" + site + "#" + strconv.Itoa(r.timers[site])
	r.mu.Unlock()
	raceEnable()
	var fires int32
	return func() {
		n := atomic.AddInt32(&fires, 1)
		if cur.Load() != r {
			if r.dead.Load() {
				select {}
			}
			f()
			return
		}
		goStart(base+"."+strconv.Itoa(int(n)), true)
		defer GoExit()
		f()
	}
}

// Send replaces the statement `ch <- v`.
func Send[T any](ch chan<- T, v T, site string) {
	r := current()
	if r == nil {
		ch <- v
		return
	}
	if !r.Mask[KYield] {
		r.park(KYield, site, nil)
	}
	select {
	case ch <- v:
		return
	default:
	}
	r.selfQ().At = site
	ch <- v
	r.park(KWoke, site, nil)
}

// Recv replaces the expression `<-ch`.
func Recv[T any](ch <-chan T, site string) T {
	v, _ := Recv2(ch, site)
	return v
}

// Recv2 replaces `v, ok := <-ch`.
func Recv2[T any](ch <-chan T, site string) (T, bool) {
	r := current()
	if r == nil {
		v, ok := <-ch
		return v, ok
	}
	if !r.Mask[KYield] {
		r.park(KYield, site, nil)
	}
	select {
	case v, ok := <-ch:
		return v, ok
	default:
	}
	r.selfQ().At = site
	v, ok := <-ch
	r.park(KWoke, site, nil)
	return v, ok
}

// Close replaces close(ch).
func Close[T any](ch chan T, site string) {
	optional(KYield, site, nil)
	close(ch)
}

// Lock replaces m.Lock() on a sync.Mutex.
func Lock(m *sync.Mutex, site string) {
	r := current()
	if r == nil {
		m.Lock()
		return
	}
	if !r.Mask[KPreLock] {
		r.park(KPreLock, site, nil)
	}
	for !m.TryLock() {
		r.park(KLock, site, m)
	}
}

// Unlock replaces m.Unlock().
//
// Releasing a lock is where a goroutine goes on with what it learnt under it: a pointer taken from a table, a value
// it is about to use. The optional park point right after it lets the scheduler run the others in exactly that
// window, which no other instrumented point covers when the next thing the goroutine does is plain memory access.
func Unlock(m *sync.Mutex, site string) {
	m.Unlock()
	optional(KUnlock, site, nil)
}

// TryLockable reports whether a goroutine parked on m could now take it. Scheduler only (at quiescence).
func TryLockable(obj any) bool {
	switch m := obj.(type) {
	case *sync.Mutex:
		if m.TryLock() {
			m.Unlock()
			return true
		}
		return false
	case *sync.RWMutex:
		if m.TryLock() {
			m.Unlock()
			return true
		}
		return false
	case onceWait:
		m.r.mu.Lock()
		d := m.st.done
		m.r.mu.Unlock()
		return d
	case rlock:
		if m.m.TryRLock() {
			m.m.RUnlock()
			return true
		}
		return false
	}
	return true
}

type rlock struct{ m *sync.RWMutex }

// LockRW / UnlockRW / RLock / RUnlock replace the sync.RWMutex methods.
func LockRW(m *sync.RWMutex, site string) {
	r := current()
	if r == nil {
		m.Lock()
		return
	}
	if !r.Mask[KPreLock] {
		r.park(KPreLock, site, nil)
	}
	for !m.TryLock() {
		r.park(KLock, site, m)
	}
}
func UnlockRW(m *sync.RWMutex, site string) {
	m.Unlock()
	optional(KUnlock, site, nil)
}
func RLock(m *sync.RWMutex, site string) {
	r := current()
	if r == nil {
		m.RLock()
		return
	}
	if !r.Mask[KPreLock] {
		r.park(KPreLock, site, nil)
	}
	for !m.TryRLock() {
		r.park(KLock, site, rlock{m})
	}
}
func RUnlock(m *sync.RWMutex, site string) {
	m.RUnlock()
	optional(KUnlock, site, nil)
}

// Atom0 / Atom1 / Atom2 wrap an atomic operation with a preemption point before it.
func Atom0(site string, f func()) {
	optional(KAtomic, site, nil)
	f()
}
func Atom1[T any](site string, f func() T) T {
	optional(KAtomic, site, nil)
	return f()
}

// Recovered replaces recover(): returns its argument and records a swallowed panic.
func Recovered(v any, site string) any {
	if v == nil {
		return nil
	}
	r := current()
	if r == nil {
		return v
	}
	name := "?"
	raceDisable()
	defer raceEnable()
	gid := goid()
	r.mu.Lock()
	if g := r.byGoid.get(gid); g != nil {
		name = g.Name
	}
	var s string
	switch x := v.(type) {
	case error:
		s = x.Error()
	case string:
		s = x
	default:
		s = "panic value"
	}
	stk := make([]byte, 4096)
	stk = stk[:runtime.Stack(stk, false)]
	r.Recovers = append(r.Recovers, RecoverEvent{Site: site, Value: s + "\n" + string(stk), G: name})
	r.mu.Unlock()
	return v
}

// Hit records coverage of a site (called by the scheduler when it sees a park request).
func (r *Run) Hit(site string) { r.SiteHits[site]++ }

// Polled is the park after a select that has a default arm (it cannot have blocked): optional.
func Polled(site string, arm int) { optional(KYield, site, nil) }

// SelfName returns the logical name of the calling goroutine ("" outside a run or if unregistered).
func SelfName() string {
	r := current()
	if r == nil {
		return ""
	}
	raceDisable()
	defer raceEnable()
	gid := goid()
	r.mu.Lock()
	defer r.mu.Unlock()
	if g := r.byGoid.get(gid); g != nil {
		return g.Name
	}
	return ""
}

// At records where the calling goroutine is about to block (harness transport).
func At(site string) {
	if r := current(); r != nil {
		r.selfQ().At = site
	}
}

type onceSt struct {
	running, done bool
}

type onceWait struct {
	r  *Run
	st *onceSt
}

var onceStates sync.Map // *sync.Once -> *onceSt (per process; a Once belongs to one run's objects)

// OnceDo replaces o.Do(f): sync.Once blocks latecomers on an internal mutex, which is not a durable
// block for synctest, so a latecomer parks here until the first caller is done.
func OnceDo(o *sync.Once, f func(), site string) {
	r := current()
	if r == nil {
		o.Do(f)
		return
	}
	v, _ := onceStates.LoadOrStore(o, &onceSt{})
	st := v.(*onceSt)
	if !r.Mask[KPreLock] {
		r.park(KPreLock, site, nil)
	}
	for {
		raceDisable()
		r.mu.Lock()
		if st.done {
			r.mu.Unlock()
			raceEnable()
			o.Do(func() {}) // already done: this only takes the happens-before edge a real Once gives
			return
		}
		if !st.running {
			st.running = true
			r.mu.Unlock()
			raceEnable()
			break
		}
		r.mu.Unlock()
		raceEnable()
		r.park(KLock, site, onceWait{r, st})
	}
	defer func() {
		raceDisable()
		r.mu.Lock()
		st.done, st.running = true, false
		r.mu.Unlock()
		raceEnable()
	}()
	o.Do(f)
}
