//go:build race

package simrt

import "runtime"

// RaceEnabled reports whether the binary was built with -race.
const RaceEnabled = true

func raceDisable() { runtime.RaceDisable() }
func raceEnable()  { runtime.RaceEnable() }
