//go:build race

package simrt

import (
	"reflect"
	"runtime"
	"unsafe"
)

// RaceEnabled reports whether the binary was built with -race.
const RaceEnabled = true

func raceDisable() { runtime.RaceDisable() }
func raceEnable()  { runtime.RaceEnable() }

// like sync.Pool: one of a fixed set of addresses stands for the object, so that only Put(x) -> Get(x) is ordered
var poolRaceHash [128]uint64

func poolRaceAddr(x any) unsafe.Pointer {
	v := reflect.ValueOf(x)
	var ptr uintptr
	if v.Kind() == reflect.Pointer {
		ptr = v.Pointer()
	}
	h := uint32((uint64(uint32(ptr)) * 0x85ebca6b) >> 16)
	return unsafe.Pointer(&poolRaceHash[h%uint32(len(poolRaceHash))])
}

func raceReleaseObj(x any) { runtime.RaceReleaseMerge(poolRaceAddr(x)) }
func raceAcquireObj(x any) { runtime.RaceAcquire(poolRaceAddr(x)) }
