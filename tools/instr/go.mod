module instr

go 1.25.0
