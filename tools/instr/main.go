// Command instr instruments a scratch copy of github.com/dgrr/http2 with calls into simrt.
//
// usage: instr <dir>        (rewrites the non-test .go files of the package in <dir> in place)
//
// Edits are byte-offset insertions/replacements on the original text; positions come from go/ast,
// the decision whether a construct is a sync.Mutex / sync.Pool / sync/atomic / time.AfterFunc use
// comes from go/types. Constructs it does not recognise are left alone and listed on stderr.
package main

import (
	"encoding/json"
	"fmt"
	"go/ast"
	"go/build"
	"go/importer"
	"go/parser"
	"go/token"
	"go/types"
	"os"
	"path/filepath"
	"sort"
	"strings"
)

type edit struct {
	off, del int
	text     string
	seq      int
	closing  bool
}

type fileEdits struct {
	name  string
	src   []byte
	edits []edit
}

var (
	fset  = token.NewFileSet()
	info  *types.Info
	nseq  int
	sites = map[string]int{} // kind -> count
	warns []string
	maps  []string // range-over-map sites
)

func (fe *fileEdits) ins(pos token.Pos, text string) {
	nseq++
	fe.edits = append(fe.edits, edit{off: fset.Position(pos).Offset, text: text, seq: nseq})
}

// insEnd inserts text that closes a construct opened by an earlier ins: at equal offsets closers
// come first, innermost (latest) first.
func (fe *fileEdits) insEnd(pos token.Pos, text string) {
	nseq++
	fe.edits = append(fe.edits, edit{off: fset.Position(pos).Offset, text: text, seq: nseq, closing: true})
}

func (fe *fileEdits) repl(from, to token.Pos, text string) {
	nseq++
	o := fset.Position(from).Offset
	fe.edits = append(fe.edits, edit{off: o, del: fset.Position(to).Offset - o, text: text, seq: nseq})
}

// funcRanges lists every function declaration of the package, to name the function a site is in.
var funcRanges []struct {
	from, to token.Pos
	name     string
}

func funcOf(pos token.Pos) string {
	for _, fr := range funcRanges {
		if pos >= fr.from && pos < fr.to {
			return fr.name
		}
	}
	return "?"
}

// site ids: file:line:col(function). Signatures of findings use only file and function.
func site(pos token.Pos) string {
	p := fset.Position(pos)
	return fmt.Sprintf("%q", fmt.Sprintf("%s:%d:%d(%s)", filepath.Base(p.Filename), p.Line, p.Column, funcOf(pos)))
}

func warn(pos token.Pos, format string, a ...any) {
	warns = append(warns, fmt.Sprintf("%s: %s", fset.Position(pos), fmt.Sprintf(format, a...)))
}

func namedIs(t types.Type, pkg, name string) bool {
	if t == nil {
		return false
	}
	if p, ok := t.(*types.Pointer); ok {
		t = p.Elem()
	}
	n, ok := t.(*types.Named)
	if !ok {
		return false
	}
	o := n.Obj()
	return o != nil && o.Pkg() != nil && o.Pkg().Path() == pkg && o.Name() == name
}

func isPtr(t types.Type) bool {
	_, ok := t.Underlying().(*types.Pointer)
	return ok
}

func qual(p *types.Package) string {
	if p == nil || p.Path() == "github.com/dgrr/http2" {
		return ""
	}
	return p.Name()
}

// calleeOf returns the package path and name of the function or method a call resolves to.
func calleeOf(call *ast.CallExpr) (pkg, recv, name string) {
	var id *ast.Ident
	switch f := call.Fun.(type) {
	case *ast.Ident:
		id = f
	case *ast.SelectorExpr:
		id = f.Sel
	case *ast.IndexExpr: // generic instantiation f[T](...)
		switch g := f.X.(type) {
		case *ast.Ident:
			id = g
		case *ast.SelectorExpr:
			id = g.Sel
		}
	}
	if id == nil {
		return
	}
	obj := info.Uses[id]
	fn, ok := obj.(*types.Func)
	if !ok {
		if b, ok := obj.(*types.Builtin); ok {
			return "builtin", "", b.Name()
		}
		return
	}
	if fn.Pkg() != nil {
		pkg = fn.Pkg().Path()
	}
	name = fn.Name()
	if sig, ok := fn.Type().(*types.Signature); ok && sig.Recv() != nil {
		t := sig.Recv().Type()
		if p, ok := t.(*types.Pointer); ok {
			t = p.Elem()
		}
		if n, ok := t.(*types.Named); ok {
			recv = n.Obj().Name()
		}
	}
	return
}

type visitor struct {
	fe     *fileEdits
	stack  []ast.Node
	inComm map[ast.Node]bool // send/recv nodes that are the Comm of a select clause
}

func (v *visitor) parent(k int) ast.Node {
	if len(v.stack) < k+1 {
		return nil
	}
	return v.stack[len(v.stack)-1-k]
}

func (v *visitor) Visit(n ast.Node) ast.Visitor {
	if n == nil {
		v.stack = v.stack[:len(v.stack)-1]
		return nil
	}
	v.handle(n)
	v.stack = append(v.stack, n)
	return v
}

func (v *visitor) handle(n ast.Node) {
	fe := v.fe
	switch x := n.(type) {
	case *ast.SelectStmt:
		at := x.Pos()
		if l, ok := v.parent(0).(*ast.LabeledStmt); ok {
			at = l.Pos()
		}
		fe.ins(at, "simrt.Yield("+site(x.Pos())+"); ")
		hasDefault := false
		for _, c := range x.Body.List {
			if c.(*ast.CommClause).Comm == nil {
				hasDefault = true
			}
		}
		woke := "Woke"
		if hasDefault {
			woke = "Polled" // a select with a default arm never blocks: the park after it is optional
		}
		for i, c := range x.Body.List {
			cc := c.(*ast.CommClause)
			if cc.Comm != nil {
				v.markComm(cc.Comm)
			}
			fe.ins(cc.Colon+1, fmt.Sprintf(" simrt.%s(%s, %d);", woke, site(x.Pos()), i))
		}
		sites["select"]++
	case *ast.SendStmt:
		if v.inComm[x] {
			return
		}
		fe.ins(x.Pos(), "simrt.Send(")
		fe.repl(x.Arrow, x.Arrow+2, ",")
		fe.insEnd(x.End(), ", "+site(x.Pos())+")")
		sites["send"]++
	case *ast.UnaryExpr:
		if x.Op != token.ARROW || v.inComm[x] {
			return
		}
		fn := "simrt.Recv("
		if as, ok := v.parent(0).(*ast.AssignStmt); ok && len(as.Lhs) == 2 && len(as.Rhs) == 1 && as.Rhs[0] == x {
			fn = "simrt.Recv2("
		}
		if vs, ok := v.parent(0).(*ast.ValueSpec); ok && len(vs.Names) == 2 && len(vs.Values) == 1 && vs.Values[0] == x {
			fn = "simrt.Recv2("
		}
		fe.repl(x.OpPos, x.OpPos+2, fn)
		fe.insEnd(x.End(), ", "+site(x.Pos())+")")
		sites["recv"]++
	case *ast.RangeStmt:
		if t := info.TypeOf(x.X); t != nil {
			switch t.Underlying().(type) {
			case *types.Chan:
				fe.ins(x.Pos(), "simrt.Yield("+site(x.Pos())+"); ")
				fe.ins(x.Body.Lbrace+1, " simrt.Woke("+site(x.Pos())+", 0);")
				sites["rangechan"]++
			case *types.Map:
				maps = append(maps, fset.Position(x.Pos()).String())
			}
		}
	case *ast.GoStmt:
		v.goStmt(x)
	case *ast.CallExpr:
		v.call(x)
	}
}

func (v *visitor) markComm(s ast.Stmt) {
	switch c := s.(type) {
	case *ast.SendStmt:
		v.inComm[c] = true
	case *ast.ExprStmt:
		if u, ok := c.X.(*ast.UnaryExpr); ok {
			v.inComm[u] = true
		}
	case *ast.AssignStmt:
		for _, r := range c.Rhs {
			if u, ok := r.(*ast.UnaryExpr); ok {
				v.inComm[u] = true
			}
		}
	}
}

func (v *visitor) goStmt(x *ast.GoStmt) {
	fe := v.fe
	st := site(x.Pos())
	if fl, ok := x.Call.Fun.(*ast.FuncLit); ok {
		variadic := false
		np := 0
		for _, f := range fl.Type.Params.List {
			if _, ok := f.Type.(*ast.Ellipsis); ok {
				variadic = true
			}
			np += len(f.Names)
			if len(f.Names) == 0 {
				np = -1000
			}
		}
		if !variadic && np >= 0 {
			if np == 0 {
				fe.ins(fl.Type.Params.Opening+1, "__sid string")
				fe.insEnd(x.Call.Rparen, "simrt.Spawn("+st+")")
			} else {
				fe.ins(fl.Type.Params.Closing, ", __sid string")
				fe.insEnd(x.Call.Rparen, ", simrt.Spawn("+st+")")
			}
			fe.ins(fl.Body.Lbrace+1, " simrt.GoStart(__sid); defer simrt.GoExit();")
			sites["go"]++
			return
		}
		warn(x.Pos(), "go statement not named (variadic or unnamed parameters)")
		return
	}
	if len(x.Call.Args) != 0 {
		warn(x.Pos(), "go statement with arguments: wrapped, arguments are evaluated in the new goroutine")
	}
	fe.ins(x.Call.Pos(), "func(__sid string) { simrt.GoStart(__sid); defer simrt.GoExit(); ")
	fe.insEnd(x.Call.End(), " }(simrt.Spawn("+st+"))")
	sites["go"]++
}

func (v *visitor) call(x *ast.CallExpr) {
	fe := v.fe
	pkg, recv, name := calleeOf(x)
	switch {
	case pkg == "builtin" && name == "recover":
		fe.ins(x.Pos(), "simrt.Recovered(")
		fe.insEnd(x.End(), ", "+site(x.Pos())+")")
		sites["recover"]++
	case pkg == "builtin" && name == "close":
		if _, ok := v.parent(0).(*ast.ExprStmt); !ok {
			return // defer close(ch) etc.: leave
		}
		id := x.Fun.(*ast.Ident)
		fe.repl(id.Pos(), id.End(), "simrt.Close")
		fe.insEnd(x.Rparen, ", "+site(x.Pos()))
		sites["close"]++
	case pkg == "time" && recv == "" && name == "AfterFunc" && len(x.Args) == 2:
		fe.ins(x.Args[1].Pos(), "simrt.TimerFunc(")
		fe.insEnd(x.Args[1].End(), ", "+site(x.Pos())+")")
		sites["afterfunc"]++
	case pkg == "sync" && recv == "Once" && name == "Do" && len(x.Args) == 1:
		sel, ok := x.Fun.(*ast.SelectorExpr)
		if !ok {
			return
		}
		rt := info.TypeOf(sel.X)
		if rt == nil || !namedIs(rt, "sync", "Once") {
			warn(x.Pos(), "sync.Once.Do through an embedded field: not instrumented")
			return
		}
		amp := "&"
		if isPtr(rt) {
			amp = ""
		}
		fe.ins(x.Pos(), "simrt.OnceDo("+amp)
		fe.repl(sel.X.End(), x.Lparen+1, ", ")
		fe.insEnd(x.Rparen, ", "+site(x.Pos()))
		sites["once"]++
	case pkg == "sync" && (recv == "Mutex" || recv == "RWMutex" || recv == "Pool"):
		sel, ok := x.Fun.(*ast.SelectorExpr)
		if !ok {
			return
		}
		rt := info.TypeOf(sel.X)
		if rt == nil || !(namedIs(rt, "sync", recv)) {
			warn(x.Pos(), "sync.%s.%s through an embedded field: not instrumented", recv, name)
			return
		}
		amp := "&"
		if isPtr(rt) {
			amp = ""
		}
		var fn string
		switch recv + "." + name {
		case "Mutex.Lock":
			fn = "Lock"
		case "Mutex.Unlock":
			fn = "Unlock"
		case "RWMutex.Lock":
			fn = "LockRW"
		case "RWMutex.Unlock":
			fn = "UnlockRW"
		case "RWMutex.RLock":
			fn = "RLock"
		case "RWMutex.RUnlock":
			fn = "RUnlock"
		case "Pool.Get":
			fn = "PoolGet"
		case "Pool.Put":
			fn = "PoolPut"
		default:
			warn(x.Pos(), "sync.%s.%s: not instrumented", recv, name)
			return
		}
		fe.ins(x.Pos(), "simrt."+fn+"("+amp)
		if fn == "PoolPut" {
			fe.repl(sel.X.End(), x.Lparen+1, ", ")
			fe.insEnd(x.Rparen, ", "+site(x.Pos()))
		} else {
			fe.repl(sel.X.End(), x.End(), ", "+site(x.Pos())+")")
		}
		sites[strings.ToLower(recv)]++
	case pkg == "sync/atomic":
		switch v.parent(0).(type) {
		case *ast.GoStmt, *ast.DeferStmt:
			return
		}
		sig, _ := info.TypeOf(x.Fun).(*types.Signature)
		if sig == nil {
			return
		}
		if _, isStmt := v.parent(0).(*ast.ExprStmt); isStmt || sig.Results().Len() == 0 {
			fe.ins(x.Pos(), "simrt.Atom0("+site(x.Pos())+", func() { ")
			fe.insEnd(x.End(), " })")
		} else if sig.Results().Len() == 1 {
			ts := types.TypeString(sig.Results().At(0).Type(), qual)
			fe.ins(x.Pos(), "simrt.Atom1("+site(x.Pos())+", func() "+ts+" { return ")
			fe.insEnd(x.End(), " })")
		} else {
			return
		}
		sites["atomic"]++
	}
}

func main() {
	if len(os.Args) != 2 {
		fmt.Fprintln(os.Stderr, "usage: instr <dir>")
		os.Exit(2)
	}
	dir, _ := filepath.Abs(os.Args[1])
	ms, _ := filepath.Glob(filepath.Join(dir, "*.go"))
	var files []*ast.File
	var fes []*fileEdits
	for _, m := range ms {
		if strings.HasSuffix(m, "_test.go") {
			continue
		}
		src, err := os.ReadFile(m)
		if err != nil {
			fatal(err)
		}
		f, err := parser.ParseFile(fset, m, src, parser.ParseComments)
		if err != nil {
			fatal(err)
		}
		files = append(files, f)
		fes = append(fes, &fileEdits{name: m, src: src})
		for _, d := range f.Decls {
			if fd, ok := d.(*ast.FuncDecl); ok && fd.Body != nil {
				name := fd.Name.Name
				if fd.Recv != nil && len(fd.Recv.List) == 1 {
					t := fd.Recv.List[0].Type
					if st, ok := t.(*ast.StarExpr); ok {
						t = st.X
					}
					if id, ok := t.(*ast.Ident); ok {
						name = id.Name + "." + name
					}
				}
				funcRanges = append(funcRanges, struct {
					from, to token.Pos
					name     string
				}{fd.Pos(), fd.End(), name})
			}
		}
	}
	info = &types.Info{
		Types: map[ast.Expr]types.TypeAndValue{},
		Uses:  map[*ast.Ident]types.Object{},
		Defs:  map[*ast.Ident]types.Object{},
	}
	ctxt := build.Default
	ctxt.Dir = dir
	ctxt.CgoEnabled = false
	var terrs []string
	conf := types.Config{
		Importer: importer.ForCompiler(fset, "source", nil),
		Error:    func(err error) { terrs = append(terrs, err.Error()) },
	}
	if err := os.Chdir(dir); err != nil {
		fatal(err)
	}
	_, _ = conf.Check("github.com/dgrr/http2", fset, files, info)
	if len(terrs) > 0 {
		for _, e := range terrs {
			fmt.Fprintln(os.Stderr, "typecheck:", e)
		}
		fmt.Fprintln(os.Stderr, "instr: the copy does not type-check")
		os.Exit(3)
	}
	for i, f := range files {
		v := &visitor{fe: fes[i], inComm: map[ast.Node]bool{}}
		ast.Walk(v, f)
		fe := fes[i]
		if len(fe.edits) == 0 {
			continue
		}
		fe.ins(f.Name.End(), "\nimport \"simrt\"\n")
		sort.SliceStable(fe.edits, func(a, b int) bool {
			ea, eb := fe.edits[a], fe.edits[b]
			if ea.off != eb.off {
				return ea.off < eb.off
			}
			if ea.closing != eb.closing {
				return ea.closing
			}
			if ea.closing {
				return ea.seq > eb.seq
			}
			return ea.seq < eb.seq
		})
		var out []byte
		last := 0
		for _, e := range fe.edits {
			if e.off < last {
				fatal(fmt.Errorf("%s: overlapping edits at offset %d", fe.name, e.off))
			}
			out = append(out, fe.src[last:e.off]...)
			out = append(out, e.text...)
			last = e.off + e.del
		}
		out = append(out, fe.src[last:]...)
		if err := os.WriteFile(fe.name, out, 0o644); err != nil {
			fatal(err)
		}
	}
	rep := map[string]any{"sites": sites, "warnings": warns, "range_over_map": maps}
	b, _ := json.MarshalIndent(rep, "", " ")
	fmt.Println(string(b))
}

func fatal(err error) {
	fmt.Fprintln(os.Stderr, "instr:", err)
	os.Exit(2)
}
